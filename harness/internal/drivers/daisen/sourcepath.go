package daisen

import (
	"archive/tar"
	"bytes"
	"compress/gzip"
	"context"
	"crypto/sha256"
	"database/sql"
	"encoding/base64"
	"encoding/hex"
	"encoding/json"
	"fmt"
	"io"
	"net/http"
	"net/http/httptest"
	"net/url"
	"os"
	"path/filepath"
	"regexp"
	"runtime"
	"sort"
	"strconv"
	"strings"
	"testing/fstest"

	"github.com/sarchlab/akita/v5/daisen2"
	"github.com/sarchlab/akita/v5/datarecording"
	"github.com/sarchlab/akita/v5/sourcefs"

	"verif/harness/internal/reg"
)

// ---------------------------------------------------------------- C39
//
// Archives (one row of the trace's `source` table per root) are built from the
// entry descriptions of SourcePath.tla: well-formed ones with the real writer
// (sourcefs.WriteArchive), hostile ones with the real writer where it accepts
// the name and by hand (tar+gzip) otherwise; they are stored through the real
// data recorder in the shape simulation.recordSourceArchives uses, opened by
// the real reader (sourcefs.OpenTraceSource or a whole daisen2 replay server)
// and queried through the agent's code tools (hook H3) and the HTTP handlers.

// Every line of every entry carries the entry's number and its own line
// number, so that any text a tool returns can be attributed.
func markerLine(eid, line int) string { return fmt.Sprintf("MK%dx%d payload", eid, line) }

func entryContent(eid int, size int) []byte {
	var b bytes.Buffer
	if size <= 0 {
		for k := 1; k <= 3; k++ {
			b.WriteString(markerLine(eid, k))
			b.WriteByte('\n')
		}
		return b.Bytes()
	}
	b.Grow(size + 64)
	for k := 1; b.Len() < size; k++ {
		b.WriteString(markerLine(eid, k))
		b.WriteByte('\n')
	}
	return b.Bytes()[:size]
}

type spEntry struct {
	Name string `json:"name"`
	EID  int    `json:"eid"`
	Size int    `json:"size"` // 0: three marker lines; >0: exactly that many bytes of marker lines
	// hand-built entries
	Type     string `json:"type"`     // "" regular | dir | symlink | link | fifo
	Linkname string `json:"linkname"` // for symlink/link
	Declared int64  `json:"declared"` // bomb: header size, zeros follow (Size ignored)
	Truncate bool   `json:"truncate"` // the stream ends inside this entry's body
}

type spRow struct {
	Root    string    `json:"root"`
	Entries []spEntry `json:"entries"`
	Hand    bool      `json:"hand"`    // build the tar by hand even if the real writer could
	Garbage string    `json:"garbage"` // "" | notgzip | notbase64 | empty
}

type spRequest struct {
	Tool   string `json:"tool"` // code_read | code_ls | code_search | http_read | http_ls
	Path   string `json:"path"`
	Start  int    `json:"start"`
	End    int    `json:"end"`
	Query  string `json:"query"`
	Filter string `json:"filter"`
}

type spScenario struct {
	ID       int         `json:"id"`
	Rows     []spRow     `json:"rows"`
	Via      string      `json:"via"` // open (sourcefs.OpenTraceSource) | server (daisen2.NewReplayServer)
	Requests []spRequest `json:"requests"`
	Common   bool        `json:"common"` // also run the shared request list
	Full     bool        `json:"full"`   // return complete texts
}

type spRoundTrip struct {
	ID    int               `json:"id"`
	Files map[string]string `json:"files"` // name -> content (base64)
	Tree  bool              `json:"tree"`  // also lay the files out on disk / in an fs.FS and use ArchiveDir / ArchiveFS
	// Writes is how many times the same file set is archived in this process (from maps filled in
	// different orders); every archive must be byte-equal to the first. 0 means 2.
	Writes int `json:"writes"`
}

type spInput struct {
	// ProgressFile, when set, is rewritten with "<scenario id> <stage>" (build | open | query) before every stage,
	// so that the scenario and the stage are known if the process dies without a chance to report.
	ProgressFile string        `json:"progress_file"`
	Scenarios    []spScenario  `json:"scenarios"`
	Common       []spRequest   `json:"common"`
	RoundTrips   []spRoundTrip `json:"roundtrips"`
}

type spAnswer struct {
	I      int     `json:"i"` // index into requests ++ common
	Err    string  `json:"err,omitempty"`
	Status int     `json:"status,omitempty"`
	Marks  [][]int `json:"marks,omitempty"` // distinct [eid, line] markers found in the answer (at most 40)
	NMarks int     `json:"n_marks,omitempty"`
	Len    int     `json:"len"`
	Text   string  `json:"text,omitempty"`
}

type spResult struct {
	ID         int        `json:"id"`
	OpenErr    string     `json:"open_err,omitempty"`
	Files      int        `json:"files"`
	Roots      []string   `json:"roots"`
	AllocBytes uint64     `json:"alloc_bytes"` // bytes allocated while opening the source
	ArchiveLen int        `json:"archive_len"` // compressed bytes stored
	Declared   int64      `json:"declared"`    // largest declared entry size
	Answers    []spAnswer `json:"answers"`
	Panic      string     `json:"panic,omitempty"`
}

type spRTResult struct {
	ID       int      `json:"id"`
	Problems []string `json:"problems"`
	Bytes    int      `json:"bytes"`
	Hash     string   `json:"hash"`      // SHA-256 of the first archive (compared across processes by the check)
	TreeHash string   `json:"tree_hash"` // same for ArchiveDir
	Distinct int      `json:"distinct"`  // number of different byte strings among the writes
}

type spOutput struct {
	Results    []spResult   `json:"results"`
	RoundTrips []spRTResult `json:"roundtrips"`
	Calls      int          `json:"calls"`
}

// sourceRow mirrors simulation.sourceArchiveEntry (the recorder maps struct
// fields to columns).
type sourceRow struct {
	Root    string
	Format  string
	Content string
}

var markRe = regexp.MustCompile(`MK(\d+)x(\d+)`)

func needsHand(r spRow) bool {
	if r.Hand {
		return true
	}
	for _, e := range r.Entries {
		if e.Type != "" || e.Declared > 0 || e.Truncate {
			return true
		}
	}
	return false
}

func buildArchive(r spRow) (gz []byte, declared int64, err error) {
	if !needsHand(r) {
		files := map[string][]byte{}
		for _, e := range r.Entries {
			files[e.Name] = entryContent(e.EID, e.Size)
		}
		var buf bytes.Buffer
		if err := sourcefs.WriteArchive(&buf, files); err == nil {
			return buf.Bytes(), 0, nil
		}
		// the real writer (archive/tar) refuses some names, e.g. a regular file whose name ends in "/":
		// such an archive can only come from a foreign producer — write the tar blocks by hand
		return rawArchive(r)
	}
	var buf bytes.Buffer
	zw, _ := gzip.NewWriterLevel(&buf, gzip.BestSpeed)
	tw := tar.NewWriter(zw)
	for _, e := range r.Entries {
		hdr := &tar.Header{Name: e.Name, Mode: 0o644, Typeflag: tar.TypeReg}
		var body io.Reader
		switch e.Type {
		case "dir":
			hdr.Typeflag = tar.TypeDir
		case "symlink":
			hdr.Typeflag, hdr.Linkname = tar.TypeSymlink, e.Linkname
		case "link":
			hdr.Typeflag, hdr.Linkname = tar.TypeLink, e.Linkname
		case "fifo":
			hdr.Typeflag = tar.TypeFifo
		default:
			if e.Declared > 0 {
				hdr.Size = e.Declared
				if e.Declared > declared {
					declared = e.Declared
				}
				if e.Truncate {
					body = bytes.NewReader(entryContent(e.EID, 0))
				} else {
					// the marker lines first, zeros after them
					head := entryContent(e.EID, 0)
					body = io.MultiReader(bytes.NewReader(head), io.LimitReader(zeros{}, e.Declared-int64(len(head))))
				}
			} else {
				c := entryContent(e.EID, e.Size)
				hdr.Size = int64(len(c))
				body = bytes.NewReader(c)
			}
		}
		if err := tw.WriteHeader(hdr); err != nil {
			return nil, 0, err
		}
		if body != nil {
			if _, err := io.Copy(tw, body); err != nil {
				return nil, 0, err
			}
		}
		if e.Truncate {
			_ = tw.Flush()
			_ = zw.Close()
			return buf.Bytes(), declared, nil
		}
	}
	if err := tw.Close(); err != nil {
		return nil, 0, err
	}
	if err := zw.Close(); err != nil {
		return nil, 0, err
	}
	return buf.Bytes(), declared, nil
}

// rawArchive writes ustar blocks directly (regular files only, names up to 100 bytes).
func rawArchive(r spRow) ([]byte, int64, error) {
	var buf bytes.Buffer
	zw := gzip.NewWriter(&buf)
	for _, e := range r.Entries {
		if len(e.Name) > 100 {
			return nil, 0, fmt.Errorf("raw tar: name too long")
		}
		c := entryContent(e.EID, e.Size)
		var h [512]byte
		copy(h[0:100], e.Name)
		copy(h[100:108], "0000644\x00")
		copy(h[108:116], "0000000\x00")
		copy(h[116:124], "0000000\x00")
		copy(h[124:136], fmt.Sprintf("%011o\x00", len(c)))
		copy(h[136:148], "00000000000\x00")
		copy(h[148:156], "        ")
		h[156] = '0'
		copy(h[257:263], "ustar\x00")
		copy(h[263:265], "00")
		sum := 0
		for _, b := range h {
			sum += int(b)
		}
		copy(h[148:156], fmt.Sprintf("%06o\x00 ", sum))
		zw.Write(h[:])
		zw.Write(c)
		if pad := (512 - len(c)%512) % 512; pad > 0 {
			zw.Write(make([]byte, pad))
		}
	}
	zw.Write(make([]byte, 1024))
	if err := zw.Close(); err != nil {
		return nil, 0, err
	}
	return buf.Bytes(), 0, nil
}

type zeros struct{}

func (zeros) Read(p []byte) (int, error) {
	for i := range p {
		p[i] = 0
	}
	return len(p), nil
}

func marksOf(text string) (marks [][]int, n int) {
	seen := map[[2]int]bool{}
	for _, m := range markRe.FindAllStringSubmatch(text, -1) {
		n++
		a, _ := strconv.Atoi(m[1])
		b, _ := strconv.Atoi(m[2])
		k := [2]int{a, b}
		if !seen[k] && len(marks) < 40 {
			seen[k] = true
			marks = append(marks, []int{a, b})
		}
	}
	return
}

func runSourcePath(raw json.RawMessage) (any, error) {
	var in spInput
	if err := json.Unmarshal(raw, &in); err != nil {
		return nil, err
	}
	wd, _ := os.Getwd()
	work := filepath.Join(wd, "sp")
	cwd := filepath.Join(work, "outside", "cwd")
	if err := os.MkdirAll(cwd, 0o755); err != nil {
		return nil, err
	}
	defer os.RemoveAll(work)
	// sentinels on the real file system around the working directory: nothing may ever show them
	for _, p := range []string{"a", "r/a", "s/a", "../a", "../r/a", "../../a", "b/a"} {
		f := filepath.Join(cwd, p)
		_ = os.MkdirAll(filepath.Dir(f), 0o755)
		_ = os.WriteFile(f, []byte(markerLine(999999, 1)+"\n"), 0o644)
	}
	if err := os.Chdir(cwd); err != nil {
		return nil, err
	}
	defer os.Chdir(wd)

	out := spOutput{}
	ctx := context.Background()
	var shared *sql.DB
	defer func() {
		if shared != nil {
			shared.Close()
		}
	}()
	for si, sc := range in.Scenarios {
		res := spResult{ID: sc.ID}
		func() {
			defer func() {
				if p := recover(); p != nil {
					res.Panic = fmt.Sprint(p)
				}
			}()
			progress := func(stage string) {
				if in.ProgressFile != "" {
					_ = os.WriteFile(in.ProgressFile, []byte(fmt.Sprintf("%d %s", sc.ID, stage)), 0o644)
				}
			}
			progress("build")
			var contents []sourceRow
			for _, r := range sc.Rows {
				var content string
				switch r.Garbage {
				case "notgzip":
					content = base64.StdEncoding.EncodeToString([]byte("this is not a gzip stream " + markerLine(888888, 1)))
				case "notbase64":
					content = "%%% not base64 %%% " + markerLine(888888, 1)
				case "empty":
					content = ""
				default:
					gz, declared, err := buildArchive(r)
					if err != nil {
						panic(err)
					}
					if declared > res.Declared {
						res.Declared = declared
					}
					res.ArchiveLen += len(gz)
					content = base64.StdEncoding.EncodeToString(gz)
				}
				contents = append(contents, sourceRow{Root: r.Root, Format: "tar.gz;base64", Content: content})
			}

			var src *sourcefs.Source
			var mux *http.ServeMux
			var ms0, ms1 runtime.MemStats
			if sc.Via == "server" {
				progress("build")
				// a trace file of its own, written by the real recorder in the shape
				// simulation.recordSourceArchives uses, opened by a real replay server
				base := filepath.Join(work, fmt.Sprintf("t%d", si))
				rec := datarecording.NewDataRecorder(base)
				rec.CreateTable("source", sourceRow{})
				for _, c := range contents {
					rec.InsertData("source", c)
				}
				rec.Flush()
				if err := rec.Close(); err != nil {
					panic(err)
				}
				file := base + ".sqlite3"
				defer os.Remove(file)
				progress("open")
				runtime.ReadMemStats(&ms0)
				srv := daisen2.NewReplayServer(file, "")
				runtime.ReadMemStats(&ms1)
				src = srv.CodeSource()
				mux = http.NewServeMux()
				srv.RegisterTraceAPIRoutes(mux)
			} else {
				// the shared trace file (table created by the real recorder once); its
				// source rows are replaced for every scenario
				if shared == nil {
					base := filepath.Join(work, "shared")
					rec := datarecording.NewDataRecorder(base)
					rec.CreateTable("source", sourceRow{})
					rec.InsertData("source", sourceRow{Root: "x", Format: "tar.gz;base64", Content: ""})
					rec.Flush()
					if err := rec.Close(); err != nil {
						panic(err)
					}
					db, err := sql.Open("sqlite3", base+".sqlite3")
					if err != nil {
						panic(err)
					}
					// the scratch file needs no durability
					_, _ = db.Exec("PRAGMA synchronous = OFF")
					db.SetMaxOpenConns(1)
					shared = db
				}
				if _, err := shared.Exec("DELETE FROM source"); err != nil {
					panic(err)
				}
				for _, c := range contents {
					if _, err := shared.Exec("INSERT INTO source (Root, Format, Content) VALUES (?, ?, ?)", c.Root, c.Format, c.Content); err != nil {
						panic(err)
					}
				}
				progress("open")
				runtime.ReadMemStats(&ms0)
				s, err := sourcefs.OpenTraceSource(shared)
				runtime.ReadMemStats(&ms1)
				if err != nil {
					res.OpenErr = clipStr(err.Error(), 200)
					s = &sourcefs.Source{} // what the server does with an unreadable source
				}
				src = s
			}
			res.AllocBytes = ms1.TotalAlloc - ms0.TotalAlloc
			progress("query")
			res.Files = src.Files
			res.Roots = src.Roots

			reqs := append([]spRequest{}, sc.Requests...)
			if sc.Common {
				reqs = append(reqs, in.Common...)
			}
			for i, rq := range reqs {
				a := spAnswer{I: i}
				var text string
				func() {
					defer func() {
						if p := recover(); p != nil {
							a.Err = "panic: " + fmt.Sprint(p)
						}
					}()
					switch rq.Tool {
					case "code_read", "code_ls", "code_search":
						args := map[string]any{"reason": "verification"}
						switch rq.Tool {
						case "code_search":
							args["query"] = rq.Query
							if rq.Filter != "" {
								args["path_contains"] = rq.Filter
							}
						default:
							args["path"] = rq.Path
							if rq.Start != 0 {
								args["start_line"] = float64(rq.Start)
							}
							if rq.End != 0 {
								args["end_line"] = float64(rq.End)
							}
						}
						t, ok, err := daisen2.VerifCodeTool(ctx, rq.Tool, src, args)
						if !ok {
							panic("unknown tool " + rq.Tool)
						}
						text = t
						if err != nil {
							a.Err = clipStr(err.Error(), 160)
						}
					case "http_read", "http_ls":
						if mux == nil {
							a.Err = "no server"
							return
						}
						ep := map[string]string{"http_read": "/api/code/read", "http_ls": "/api/code/ls"}[rq.Tool]
						req := httptest.NewRequest("GET", ep+"?path="+url.QueryEscape(rq.Path), nil)
						rec := httptest.NewRecorder()
						mux.ServeHTTP(rec, req)
						a.Status = rec.Code
						text = rec.Body.String()
					}
				}()
				out.Calls++
				a.Len = len(text)
				a.Marks, a.NMarks = marksOf(text)
				if sc.Full || len(text) <= 240 {
					a.Text = clipStr(text, 4000)
				} else if a.NMarks > 0 {
					a.Text = clipStr(text, 400)
				}
				res.Answers = append(res.Answers, a)
			}
		}()
		out.Results = append(out.Results, res)
	}

	for _, rt := range in.RoundTrips {
		r := spRTResult{ID: rt.ID}
		func() {
			defer func() {
				if p := recover(); p != nil {
					r.Problems = append(r.Problems, "panic: "+fmt.Sprint(p))
				}
			}()
			files := map[string][]byte{}
			names := []string{}
			for n, c := range rt.Files {
				b, _ := base64.StdEncoding.DecodeString(c)
				files[n] = b
				names = append(names, n)
			}
			sort.Strings(names)
			var b1 bytes.Buffer
			if err := sourcefs.WriteArchive(&b1, files); err != nil {
				r.Problems = append(r.Problems, "WriteArchive: "+err.Error())
				return
			}
			r.Bytes = b1.Len()
			sum := sha256.Sum256(b1.Bytes())
			r.Hash = hex.EncodeToString(sum[:])
			writes := rt.Writes
			if writes < 2 {
				writes = 2
			}
			seen := map[string]bool{r.Hash: true}
			for w := 1; w < writes; w++ {
				// a fresh map every time, filled in a different order (rotated, every other time reversed)
				files2 := map[string][]byte{}
				for i := range names {
					k := (i + w) % len(names)
					if w%2 == 1 {
						k = len(names) - 1 - k
					}
					files2[names[k]] = append([]byte(nil), files[names[k]]...)
				}
				var b2 bytes.Buffer
				if err := sourcefs.WriteArchive(&b2, files2); err != nil {
					r.Problems = append(r.Problems, "WriteArchive: "+err.Error())
					return
				}
				s2 := sha256.Sum256(b2.Bytes())
				seen[hex.EncodeToString(s2[:])] = true
			}
			r.Distinct = len(seen)
			if len(seen) > 1 {
				r.Problems = append(r.Problems, fmt.Sprintf("%d writes of the same files differ (%d different archives)", writes, len(seen)))
			}
			back, err := sourcefs.ReadArchive(b1.Bytes())
			if err != nil {
				r.Problems = append(r.Problems, "ReadArchive of a written archive: "+err.Error())
				return
			}
			compareFiles(&r, "read back", files, back)
			if rt.Tree {
				// the same files as a directory tree and as an fs.FS; only recordable files (non-test .go, go.mod,
				// outside the pruned directories) are expected back
				dir := filepath.Join(work, fmt.Sprintf("rt%d", rt.ID))
				mfs := fstest.MapFS{}
				want := map[string][]byte{}
				for n, c := range files {
					p := filepath.Join(dir, filepath.FromSlash(n))
					_ = os.MkdirAll(filepath.Dir(p), 0o755)
					_ = os.WriteFile(p, c, 0o644)
					mfs[n] = &fstest.MapFile{Data: c}
					if recordable(n) {
						want[n] = c
					}
				}
				d1, err := sourcefs.ArchiveDir(dir)
				if err != nil {
					r.Problems = append(r.Problems, "ArchiveDir: "+err.Error())
					return
				}
				ts := sha256.Sum256(d1)
				r.TreeHash = hex.EncodeToString(ts[:])
				for w := 1; w < writes; w++ {
					d2, _ := sourcefs.ArchiveDir(dir)
					if !bytes.Equal(d1, d2) {
						r.Problems = append(r.Problems, "ArchiveDir runs over the same tree differ")
						break
					}
				}
				f1, err := sourcefs.ArchiveFS(mfs)
				if err != nil {
					r.Problems = append(r.Problems, "ArchiveFS: "+err.Error())
					return
				}
				if !bytes.Equal(d1, f1) {
					r.Problems = append(r.Problems, "ArchiveDir and ArchiveFS of the same tree differ")
				}
				backd, err := sourcefs.ReadArchive(d1)
				if err != nil {
					r.Problems = append(r.Problems, "ReadArchive(ArchiveDir): "+err.Error())
					return
				}
				compareFiles(&r, "tree read back", want, backd)
				os.RemoveAll(dir)
			}
		}()
		out.RoundTrips = append(out.RoundTrips, r)
	}
	return out, nil
}

// recordable: what the package documents as recorded — non-test .go files and go.mod outside the pruned directories.
func recordable(name string) bool {
	parts := strings.Split(name, "/")
	for _, d := range parts[:len(parts)-1] {
		switch d {
		case ".git", ".claude", "vendor", "node_modules", "testdata", "dist":
			return false
		}
	}
	base := parts[len(parts)-1]
	if base == "go.mod" {
		return true
	}
	return strings.HasSuffix(base, ".go") && !strings.HasSuffix(base, "_test.go")
}

func compareFiles(r *spRTResult, what string, want, got map[string][]byte) {
	for n, c := range want {
		g, ok := got[n]
		if !ok {
			r.Problems = append(r.Problems, fmt.Sprintf("%s: %q is missing", what, n))
		} else if !bytes.Equal(g, c) {
			r.Problems = append(r.Problems, fmt.Sprintf("%s: %q has different content (%d vs %d bytes)", what, n, len(g), len(c)))
		}
	}
	for n := range got {
		if _, ok := want[n]; !ok {
			r.Problems = append(r.Problems, fmt.Sprintf("%s: unexpected file %q", what, n))
		}
	}
}

func init() {
	reg.Register("sourcepath", runSourcePath)
}
