// Package daisen holds the drivers for the Daisen replay server's guards:
// the data-query tool (C37), the outbound LLM connection guard (C38) and the
// recorded-source tools (C39). All of them go through hook H3 (package daisen2,
// build tag verif).
package daisen

import (
	"crypto/sha256"
	"encoding/hex"
	"fmt"
	"io"
	"io/fs"
	"os"
	"path/filepath"
	"sort"

	"github.com/sarchlab/akita/v5/hooking"
	"github.com/sarchlab/akita/v5/simulation"
	"github.com/sarchlab/akita/v5/timing"
	"github.com/sarchlab/akita/v5/tracing"
)

// domain is a traced domain with its own clock (the tracing API stamps events
// with it and delivers them to the attached tracers through hooks).
type domain struct {
	*hooking.HookableBase
	name string
	now  timing.VTimeInPicoSec
}

func (d *domain) Name() string                       { return d.name }
func (d *domain) CurrentTime() timing.VTimeInPicoSec { return d.now }

// buildTrace produces a real trace database with the real simulation builder
// (data recorder, meta/topology recorders, DBTracer and — when sources is
// non-nil — the real source recorder), feeds nTasks tasks with milestones and
// tags through the tracing API and terminates the simulation. base is the
// output path without the ".sqlite3" suffix the recorder appends.
func buildTrace(base string, nTasks int, sources map[string]fs.FS, akitaSource bool) (file string, err error) {
	defer func() {
		if p := recover(); p != nil {
			err = fmt.Errorf("building the trace panicked: %v", p)
		}
	}()
	b := simulation.MakeBuilder().WithoutMonitoring().WithVisTracingOnStart().WithOutputFileName(base)
	if sources == nil && !akitaSource {
		b = b.WithoutSourceRecording()
	}
	for root, fsys := range sources {
		b = b.WithSourceFS(root, fsys)
	}
	s := b.Build()
	tr := s.GetVisTracer()
	doms := []*domain{}
	for _, n := range []string{"GPU.L1Cache", "GPU.L2Cache", "GPU.DRAM", "GPU.CU0", "GPU.TLB"} {
		d := &domain{HookableBase: hooking.NewHookableBase(), name: n}
		tracing.CollectTrace(d, tr)
		doms = append(doms, d)
	}
	kinds := []string{"req_in", "req_out", "read", "write", "translate"}
	for i := 1; i <= nTasks; i++ {
		d := doms[i%len(doms)]
		id := uint64(1000 + i)
		parent := uint64(0)
		if i > 5 {
			parent = uint64(1000 + i - 5)
		}
		d.now = timing.VTimeInPicoSec(i * 10)
		tracing.StartTask(d, tracing.TaskStart{ID: id, ParentID: parent, Kind: kinds[i%len(kinds)], What: fmt.Sprintf("op,%d", i%7)})
		if i%3 == 0 {
			d.now += 2
			tracing.AddMilestone(d, tracing.Milestone{TaskID: id, Kind: tracing.MilestoneKindHardwareResource, What: "bank"})
		}
		if i%4 == 0 {
			d.now += 1
			tracing.AddTaskTag(d, tracing.TaskTag{TaskID: id, What: "hit"})
		}
		d.now = timing.VTimeInPicoSec(i*10 + 7 + i%13)
		tracing.EndTask(d, tracing.TaskEnd{ID: id})
	}
	s.Terminate()
	file = base + ".sqlite3"
	if _, e := os.Stat(file); e != nil {
		return "", fmt.Errorf("the recorder did not produce %s: %v", file, e)
	}
	return file, nil
}

func copyFile(dst, src string) error {
	in, err := os.Open(src)
	if err != nil {
		return err
	}
	defer in.Close()
	out, err := os.Create(dst)
	if err != nil {
		return err
	}
	if _, err := io.Copy(out, in); err != nil {
		out.Close()
		return err
	}
	return out.Close()
}

func fileHash(p string) string {
	f, err := os.Open(p)
	if err != nil {
		return "absent"
	}
	defer f.Close()
	h := sha256.New()
	_, _ = io.Copy(h, f)
	return hex.EncodeToString(h.Sum(nil))
}

// listFiles returns every file below the directories, with sizes left out (the
// -shm/-wal siblings legitimately change size).
func listFiles(dirs ...string) []string {
	var out []string
	for _, d := range dirs {
		_ = filepath.WalkDir(d, func(p string, e fs.DirEntry, err error) error {
			if err != nil {
				return nil
			}
			if !e.IsDir() {
				out = append(out, p)
			}
			return nil
		})
	}
	sort.Strings(out)
	return out
}

func diffLists(before, after []string) (added, removed []string) {
	b := map[string]bool{}
	for _, x := range before {
		b[x] = true
	}
	a := map[string]bool{}
	for _, x := range after {
		a[x] = true
		if !b[x] {
			added = append(added, x)
		}
	}
	for _, x := range before {
		if !a[x] {
			removed = append(removed, x)
		}
	}
	return
}
