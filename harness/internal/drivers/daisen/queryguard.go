package daisen

import (
	"context"
	"crypto/sha256"
	"database/sql"
	"encoding/hex"
	"encoding/json"
	"errors"
	"fmt"
	"os"
	"path/filepath"
	"regexp"
	"runtime"
	"strings"
	"time"

	"github.com/sarchlab/akita/v5/daisen2"

	"verif/harness/internal/reg"
)

// ---------------------------------------------------------------- C37
//
// A behaviour of QueryGuard.tla: a server (pool of two idle connections on a
// copy of a real trace database, opened read-write like NewReplayServer or
// read-only like NewReplayServerReadOnly) receives tool calls and, between
// them, uses its own pool. The driver observes only: it never repairs a
// connection.

type qgStep struct {
	Op string `json:"op"` // tool | probe
	// tool
	SQL        string         `json:"sql"`
	Args       map[string]any `json:"args,omitempty"` // overrides {"reason","sql"} when present
	DeadlineMS float64        `json:"deadline_ms"`    // <0: caller context without deadline; 0: already expired; >0: expires after that many ms
	Conn       int            `json:"conn"`           // 0: whichever the pool hands out; 1|2: that pooled connection (the other one is held busy)
	Overlap    bool           `json:"overlap"`        // the server builds an index through its pool while the tool call runs
	Class      string         `json:"class"`
	When       string         `json:"when"`
}

type qgBehaviour struct {
	ID    int      `json:"id"`
	Mode  string   `json:"mode"` // rw | ro
	Steps []qgStep `json:"steps"`
}

type qgInput struct {
	Tasks      int           `json:"tasks"`
	Behaviours []qgBehaviour `json:"behaviours"`
}

type qgConnObs struct {
	Conn      int    `json:"conn"` // 1|2 pooled at start, 3+ opened later by the pool
	QueryOnly int    `json:"query_only"`
	ReadOK    bool   `json:"read_ok"`
	ReadErr   string `json:"read_err,omitempty"`
	WriteOK   bool   `json:"write_ok"`
	WriteErr  string `json:"write_err,omitempty"`
	IndexOK   bool   `json:"index_ok"` // the server's own ensureIndex, forced onto this connection, built its index
}

type qgObs struct {
	Op string `json:"op"`
	// tool
	Kind         string   `json:"kind,omitempty"` // rows | refused | timeout | panic | hung
	Err          string   `json:"err,omitempty"`
	OutLen       int      `json:"out_len"`
	BodyLen      int      `json:"body_len"`
	HeaderLen    int      `json:"header_len"`
	Rows         int      `json:"rows"`       // the count the tool reports, -1 when absent
	DataLines    int      `json:"data_lines"` // newline-terminated lines after the header
	Head         string   `json:"head,omitempty"`
	DBChanged    bool     `json:"db_changed"`
	WALChanged   bool     `json:"wal_changed"`
	DataChanged  bool     `json:"data_changed"`
	Added        []string `json:"added,omitempty"`
	Removed      []string `json:"removed,omitempty"`
	ElapsedMS    float64  `json:"elapsed_ms"`
	OnConn       int      `json:"on_conn"`
	DeadlineLeft bool     `json:"deadline_left"` // the caller's context was still alive when the tool returned
	Overlap      bool     `json:"overlap"`
	OverlapOK    bool     `json:"overlap_ok"` // the server's concurrent index build succeeded
	// probe
	Conns []qgConnObs `json:"conns,omitempty"`
}

type qgResult struct {
	ID    int     `json:"id"`
	Error string  `json:"error,omitempty"` // driver-side failure (not a verdict)
	Obs   []qgObs `json:"obs"`
}

type qgOutput struct {
	Results     []qgResult `json:"results"`
	Steps       int        `json:"steps"`
	Description string     `json:"description"`
	RowCap      int        `json:"row_cap"`
	ByteCap     int        `json:"byte_cap"`
	CellCap     int        `json:"cell_cap"`
	TimeoutMS   float64    `json:"timeout_ms"`
	TemplateLen int64      `json:"template_bytes"`
	TraceRows   int        `json:"trace_rows"`
}

var rowsRe = regexp.MustCompile(`^\[(\d+) rows`)

type qgServer struct {
	dir, file string
	reader    *daisen2.VerifTraceReader
	observer  *sql.DB
	ids       map[string]int // driver connection identity -> number
	rw        bool
	nIndex    int
	watch     []string
	last      qgSnap // snapshot after the previous tool call
	lastValid bool
}

func connID(c *sql.Conn) string {
	id := ""
	_ = c.Raw(func(dc any) error { id = fmt.Sprintf("%p", dc); return nil })
	return id
}

func (s *qgServer) num(c *sql.Conn) int {
	id := connID(c)
	if n, ok := s.ids[id]; ok {
		return n
	}
	n := len(s.ids) + 1
	s.ids[id] = n
	return n
}

func openServer(dir, template string, rw bool, watch []string) (s *qgServer, err error) {
	defer func() {
		if p := recover(); p != nil {
			err = fmt.Errorf("opening the trace panicked: %v", p)
		}
	}()
	if err := os.MkdirAll(dir, 0o755); err != nil {
		return nil, err
	}
	s = &qgServer{dir: dir, file: filepath.Join(dir, "trace.sqlite3"), ids: map[string]int{}, rw: rw,
		watch: watch}
	if err := copyFile(s.file, template); err != nil {
		return nil, err
	}
	if !rw {
		// a read-only server attaches to a database some writer has put in WAL
		// mode; do that with a throw-away handle
		w, err := sql.Open("sqlite3", s.file)
		if err != nil {
			return nil, err
		}
		if _, err := w.Exec("PRAGMA journal_mode=WAL"); err != nil {
			return nil, err
		}
		w.Close()
	}
	s.reader = daisen2.VerifNewTraceReader(s.file, !rw)
	ctx := context.Background()
	c1, err := s.reader.DB.Conn(ctx)
	if err != nil {
		return nil, err
	}
	c2, err := s.reader.DB.Conn(ctx)
	if err != nil {
		return nil, err
	}
	for _, c := range []*sql.Conn{c1, c2} {
		s.num(c)
		var n int
		if err := c.QueryRowContext(ctx, "SELECT count(*) FROM trace").Scan(&n); err != nil {
			return nil, fmt.Errorf("warm-up read: %w", err)
		}
	}
	c2.Close()
	c1.Close()
	if rw {
		// the server's own kind of write, so that -wal/-shm exist before any tool call
		daisen2.VerifEnsureIndex(ctx, s.reader, "warm-up", "CREATE INDEX IF NOT EXISTS verif_warm ON trace(Kind, ID)")
	}
	s.observer, err = sql.Open("sqlite3", "file:"+s.file+"?mode=ro")
	if err != nil {
		return nil, err
	}
	s.observer.SetMaxOpenConns(1)
	if _, err := s.digest(); err != nil {
		return nil, fmt.Errorf("observer: %w", err)
	}
	return s, nil
}

func (s *qgServer) close() {
	if s.observer != nil {
		s.observer.Close()
	}
	if s.reader != nil && s.reader.DB != nil {
		s.reader.DB.Close()
	}
	os.RemoveAll(s.dir)
}

// digest hashes the schema and every row of every table, read through an
// independent read-only handle.
func (s *qgServer) digest() (string, error) {
	h := sha256.New()
	rows, err := s.observer.Query("SELECT type, name, tbl_name, coalesce(sql,'') FROM sqlite_master ORDER BY type, name")
	if err != nil {
		return "", err
	}
	var tables []string
	for rows.Next() {
		var t, n, tn, q string
		if err := rows.Scan(&t, &n, &tn, &q); err != nil {
			rows.Close()
			return "", err
		}
		if strings.HasPrefix(n, "verif_") {
			continue // the probes' own artefacts (server-side writes)
		}
		fmt.Fprintf(h, "%s|%s|%s|%s\n", t, n, tn, q)
		if t == "table" {
			tables = append(tables, n)
		}
	}
	rows.Close()
	for _, t := range tables {
		r, err := s.observer.Query(`SELECT * FROM "` + strings.ReplaceAll(t, `"`, `""`) + `" ORDER BY rowid`)
		if err != nil {
			r, err = s.observer.Query(`SELECT * FROM "` + strings.ReplaceAll(t, `"`, `""`) + `"`)
			if err != nil {
				return "", err
			}
		}
		cols, _ := r.Columns()
		for r.Next() {
			vals := make([]any, len(cols))
			ptrs := make([]any, len(cols))
			for i := range vals {
				ptrs[i] = &vals[i]
			}
			if err := r.Scan(ptrs...); err != nil {
				r.Close()
				return "", err
			}
			fmt.Fprintf(h, "%s:%v\n", t, vals)
		}
		r.Close()
	}
	for _, p := range []string{"user_version", "application_id", "schema_version"} {
		var v int64
		if err := s.observer.QueryRow("PRAGMA " + p).Scan(&v); err == nil && p != "schema_version" {
			fmt.Fprintf(h, "%s=%d\n", p, v)
		}
	}
	// the journal mode is part of the database file (a switch away from WAL rewrites its header and
	// removes the -wal/-shm siblings)
	var jm string
	if err := s.observer.QueryRow("PRAGMA journal_mode").Scan(&jm); err == nil {
		fmt.Fprintf(h, "journal_mode=%s\n", strings.ToLower(jm))
	}
	return hex.EncodeToString(h.Sum(nil)), nil
}

type qgSnap struct {
	db, wal, data string
	files         []string
}

func (s *qgServer) snap() (qgSnap, error) {
	d, err := s.digest()
	return qgSnap{db: fileHash(s.file), wal: fileHash(s.file + "-wal"), data: d, files: listFiles(s.watch...)}, err
}

// hold acquires pooled connections until it holds every one except number
// want, which is left idle for the next user of the pool.
func (s *qgServer) holdOthers(want int) (release func(), err error) {
	ctx := context.Background()
	var held []*sql.Conn
	release = func() {
		for i := len(held) - 1; i >= 0; i-- {
			held[i].Close()
		}
	}
	a, err := s.reader.DB.Conn(ctx)
	if err != nil {
		return release, err
	}
	if s.num(a) != want {
		held = append(held, a)
		return release, nil
	}
	b, err := s.reader.DB.Conn(ctx)
	if err != nil {
		a.Close()
		return release, err
	}
	a.Close() // want is idle again
	held = append(held, b)
	return release, nil
}

func (s *qgServer) tool(st qgStep) (o qgObs, err error) {
	o.Op = "tool"
	o.Rows = -1
	release := func() {}
	if st.Conn > 0 {
		release, err = s.holdOthers(st.Conn)
		if err != nil {
			release()
			return o, err
		}
	}
	defer release()
	// nothing touches the files between two consecutive tool calls, so the snapshot taken after the
	// previous call serves as this call's "before" (probes and overlapping server writes invalidate it)
	before := s.last
	if !s.lastValid {
		before, err = s.snap()
		if err != nil {
			return o, err
		}
	}
	s.lastValid = false
	ctx := context.Background()
	cancel := func() {}
	switch {
	case st.DeadlineMS == 0:
		ctx, cancel = context.WithDeadline(ctx, time.Now().Add(-time.Second))
	case st.DeadlineMS > 0:
		ctx, cancel = context.WithTimeout(ctx, time.Duration(st.DeadlineMS*float64(time.Millisecond)))
	}
	defer cancel()
	args := st.Args
	if args == nil {
		args = map[string]any{"reason": "verification", "sql": st.SQL}
	}
	t0 := time.Now()
	var out string
	var terr error
	type toolRet struct {
		out   string
		err   error
		panic any
	}
	ovl := make(chan bool, 1)
	if st.Overlap {
		o.Overlap = true
		s.nIndex++
		name := fmt.Sprintf("verif_ovl_%d", s.nIndex)
		go func() {
			time.Sleep(4 * time.Millisecond)
			daisen2.VerifEnsureIndex(context.Background(), s.reader, "overlap", "CREATE INDEX IF NOT EXISTS "+name+" ON trace(EndTime, ID)")
			ovl <- true
		}()
		defer func() {
			select {
			case <-ovl:
				o.OverlapOK = s.indexExists(name)
			case <-time.After(30 * time.Second):
			}
		}()
	}
	ch := make(chan toolRet, 1)
	go func() {
		var r toolRet
		defer func() {
			r.panic = recover()
			ch <- r
		}()
		r.out, r.err = daisen2.VerifDataQueryTool(ctx, s.reader, args)
	}()
	// The tool bounds every query by its own timeout; the watchdog only exists
	// because the SQLite driver can lose an interrupt that is issued before the
	// statement's first step (then the query, and the tool call, never return).
	_, _, _, own := daisen2.VerifDataQueryLimits()
	grace := time.Duration(own) + 8*time.Second
	if st.DeadlineMS >= 0 {
		grace = time.Duration(st.DeadlineMS*float64(time.Millisecond)) + 6500*time.Millisecond // above the driver's 5 s busy timeout
	}
	select {
	case r := <-ch:
		out, terr = r.out, r.err
		if r.panic != nil {
			o.Kind = "panic"
			o.Err = fmt.Sprint(r.panic)
		}
	case <-time.After(grace):
		o.Kind = "hung"
		buf := make([]byte, 1<<20)
		o.Err = string(buf[:runtime.Stack(buf, true)])
		if d, e := time.ParseDuration(os.Getenv("VERIF_DAISEN_HOLD_ON_HANG")); e == nil {
			fmt.Fprintln(os.Stderr, "tool call hung; holding for", d, "pid", os.Getpid())
			time.Sleep(d) // lets a debugger attach
		}
		o.ElapsedMS = float64(time.Since(t0).Microseconds()) / 1000
		return o, nil
	}
	o.ElapsedMS = float64(time.Since(t0).Microseconds()) / 1000
	o.DeadlineLeft = ctx.Err() == nil
	switch {
	case o.Kind == "panic":
	case terr == nil:
		o.Kind = "rows"
	case errors.Is(terr, context.DeadlineExceeded) || errors.Is(terr, context.Canceled) ||
		strings.Contains(terr.Error(), "interrupt") || strings.Contains(terr.Error(), "deadline"):
		o.Kind = "timeout"
		o.Err = clipStr(terr.Error(), 200)
	default:
		o.Kind = "refused"
		o.Err = clipStr(terr.Error(), 200)
	}
	o.OutLen = len(out)
	if i := strings.IndexByte(out, '\n'); i >= 0 {
		body := out[i+1:]
		o.BodyLen = len(body)
		if j := strings.IndexByte(body, '\n'); j >= 0 {
			o.HeaderLen = j + 1
			o.DataLines = strings.Count(body[j+1:], "\n")
		} else {
			o.HeaderLen = len(body)
		}
		if m := rowsRe.FindStringSubmatch(out[:i]); m != nil {
			fmt.Sscan(m[1], &o.Rows)
		}
	}
	o.Head = clipStr(out, 160)
	after, err := s.snap()
	if err != nil {
		return o, err
	}
	o.DBChanged = before.db != after.db
	o.WALChanged = before.wal != after.wal
	o.DataChanged = before.data != after.data
	o.Added, o.Removed = diffLists(before.files, after.files)
	s.last, s.lastValid = after, !st.Overlap
	return o, nil
}

func clipStr(s string, n int) string {
	if len(s) > n {
		return s[:n] + "..."
	}
	return s
}

func (s *qgServer) indexExists(name string) bool {
	var one int
	return s.observer.QueryRow("SELECT 1 FROM sqlite_master WHERE type='index' AND name=?", name).Scan(&one) == nil
}

// probe uses the server's pool the way the server itself does, on every pooled
// connection: a read, a write, and the server's real on-demand index build.
func (s *qgServer) probe() (o qgObs, err error) {
	o.Op = "probe"
	s.lastValid = false
	ctx := context.Background()
	c1, err := s.reader.DB.Conn(ctx)
	if err != nil {
		return o, err
	}
	c2, err := s.reader.DB.Conn(ctx)
	if err != nil {
		c1.Close()
		return o, err
	}
	conns := []*sql.Conn{c1, c2}
	if s.num(c1) > s.num(c2) {
		conns = []*sql.Conn{c2, c1}
	}
	for _, c := range conns {
		co := qgConnObs{Conn: s.num(c), QueryOnly: -1}
		_ = c.QueryRowContext(ctx, "PRAGMA query_only").Scan(&co.QueryOnly)
		var n int
		if e := c.QueryRowContext(ctx, "SELECT count(*) FROM trace").Scan(&n); e != nil {
			co.ReadErr = clipStr(e.Error(), 160)
		} else {
			co.ReadOK = true
		}
		_, e := c.ExecContext(ctx, "CREATE TABLE IF NOT EXISTS verif_probe (x INTEGER)")
		if e == nil {
			_, e = c.ExecContext(ctx, "INSERT INTO verif_probe VALUES (1)")
		}
		if e != nil {
			co.WriteErr = clipStr(e.Error(), 160)
		} else {
			co.WriteOK = true
		}
		o.Conns = append(o.Conns, co)
	}
	// hand them back so that the lower number is the one the pool gives out next
	conns[1].Close()
	conns[0].Close()
	for i := range o.Conns {
		release, e := s.holdOthers(o.Conns[i].Conn)
		if e != nil {
			release()
			return o, e
		}
		s.nIndex++
		name := fmt.Sprintf("verif_ix_%d", s.nIndex)
		daisen2.VerifEnsureIndex(ctx, s.reader, "probe", "CREATE INDEX IF NOT EXISTS "+name+" ON trace(What, ID)")
		release()
		o.Conns[i].IndexOK = s.indexExists(name)
	}
	return o, nil
}

func runQueryGuard(raw json.RawMessage) (any, error) {
	var in qgInput
	if err := json.Unmarshal(raw, &in); err != nil {
		return nil, err
	}
	wd, err := os.Getwd()
	if err != nil {
		return nil, err
	}
	work := filepath.Join(wd, "qg")
	tmp := filepath.Join(work, "tmp")
	cwd := filepath.Join(work, "cwd")
	for _, d := range []string{tmp, cwd} {
		if err := os.MkdirAll(d, 0o755); err != nil {
			return nil, err
		}
	}
	defer os.RemoveAll(work)
	os.Setenv("TMPDIR", tmp)
	os.Setenv("SQLITE_TMPDIR", tmp)
	if in.Tasks == 0 {
		in.Tasks = 300
	}
	template, err := buildTrace(filepath.Join(work, "template"), in.Tasks, nil, false)
	if err != nil {
		return nil, err
	}
	// relative file names in hostile SQL resolve against the working directory
	if err := os.Chdir(cwd); err != nil {
		return nil, err
	}
	defer os.Chdir(wd)

	out := qgOutput{Description: daisen2.VerifDataQueryDescription()}
	var tns int64
	out.RowCap, out.ByteCap, out.CellCap, tns = daisen2.VerifDataQueryLimits()
	out.TimeoutMS = float64(tns) / 1e6
	if fi, err := os.Stat(template); err == nil {
		out.TemplateLen = fi.Size()
	}
	for bi, b := range in.Behaviours {
		res := qgResult{ID: b.ID}
		hung := false
		srv, err := openServer(filepath.Join(work, fmt.Sprintf("b%d", bi)), template, b.Mode != "ro", []string{wd})
		if err != nil {
			return nil, fmt.Errorf("behaviour %d: %w", b.ID, err)
		}
		if out.TraceRows == 0 {
			_ = srv.observer.QueryRow("SELECT count(*) FROM trace").Scan(&out.TraceRows)
		}
		for _, st := range b.Steps {
			var o qgObs
			var e error
			switch st.Op {
			case "tool":
				o, e = srv.tool(st)
			case "probe":
				o, e = srv.probe()
			default:
				e = fmt.Errorf("unknown step %q", st.Op)
			}
			if e != nil {
				res.Error = e.Error()
				break
			}
			out.Steps++
			res.Obs = append(res.Obs, o)
			if o.Kind == "hung" {
				hung = true
				break
			}
		}
		if hung {
			// a connection is still executing; leave the handles to the process exit
			srv.observer.Close()
		} else {
			srv.close()
		}
		out.Results = append(out.Results, res)
	}
	return out, nil
}

func init() {
	reg.Register("queryguard", runQueryGuard)
}
