package recorder

import (
	"bytes"
	"fmt"
	"runtime"
	"strconv"
	"strings"
	"sync"
	"sync/atomic"
	"time"
)

// ctl is the schedule controller. Goroutines calling into the recorder stop at every
// verifGate of hook H2; the controller lets exactly one of them run to its next gate
// at a time. Every released step is appended to the log under ctl.mu — the log is
// ordered by that mutex, never by a clock. A goroutine that blocks on the recorder's
// own mutex (only possible once Flush holds it across gates, i.e. on a repaired tree)
// is recognised from its scheduler wait reason and simply is not "parked": the
// controller goes on with the goroutines that are.
type ctl struct {
	mu            sync.Mutex
	procs         map[string]*proc
	byGid         map[int64]*proc
	order         []string
	log           []map[string]any
	drain         atomic.Bool
	observer      bool // free-running mode: gates only log
	blockedEvents int
	created       map[string]bool // tables whose CreateTable has returned
	calls         int             // observer: API call counter
}

const (
	stRunning = iota
	stParked
	stBlocked
	stFinished
)

type waiter struct {
	label, tab string
	ch         chan struct{}
}

type proc struct {
	name     string
	gid      int64
	state    int
	w        *waiter
	cur      *gEntry // entry the next "ins" gate belongs to
	panicMsg string
	panicked bool
}

type gEntry struct {
	ID     int    `json:"id"`
	Tab    string `json:"tab"`
	Loc    string `json:"loc"`
	Create bool   `json:"create,omitempty"` // not an entry: CreateTable(Tab)
}

func newCtl(observer bool) *ctl {
	return &ctl{procs: map[string]*proc{}, byGid: map[int64]*proc{}, observer: observer, created: map[string]bool{}}
}

func goid() int64 {
	var buf [64]byte
	s := buf[:runtime.Stack(buf[:], false)]
	s = s[len("goroutine "):]
	id, _ := strconv.ParseInt(string(s[:bytes.IndexByte(s, ' ')]), 10, 64)
	return id
}

func splitLabel(full string) (string, string) {
	if i := strings.IndexByte(full, ':'); i >= 0 {
		return full[:i], full[i+1:]
	}
	return full, ""
}

func stepLine(p *proc, label, tab string) map[string]any {
	m := map[string]any{"e": "step", "p": p.name, "l": label, "id": 0, "tab": tab, "loc": ""}
	if label == "create" && p.cur != nil {
		m["tab"] = p.cur.Tab
	}
	if label == "ins" && p.cur != nil {
		m["id"], m["tab"], m["loc"] = p.cur.ID, p.cur.Tab, p.cur.Loc
	}
	return m
}

// gate is installed as datarecording.VerifGate.
func (c *ctl) gate(full string) {
	if c.drain.Load() {
		return
	}
	gid := goid()
	label, tab := splitLabel(full)
	c.mu.Lock()
	p := c.byGid[gid]
	if p == nil {
		c.mu.Unlock()
		return
	}
	if c.observer {
		if label == "fl_check" || label == "fl_begin" || label == "fl_commit" {
			c.log = append(c.log, stepLine(p, label, tab))
		}
		c.mu.Unlock()
		return
	}
	w := &waiter{label: label, tab: tab, ch: make(chan struct{})}
	p.w, p.state = w, stParked
	c.mu.Unlock()
	<-w.ch
}

// spawn starts a named process; a panic inside it is recovered and logged.
func (c *ctl) spawn(name string, f func(p *proc)) {
	p := &proc{name: name, state: stRunning}
	c.mu.Lock()
	c.procs[name] = p
	c.order = append(c.order, name)
	c.mu.Unlock()
	go func() {
		gid := goid()
		c.mu.Lock()
		p.gid = gid
		c.byGid[gid] = p
		c.mu.Unlock()
		defer func() {
			r := recover()
			c.mu.Lock()
			p.state = stFinished
			if r != nil && !c.drain.Load() {
				p.panicked, p.panicMsg = true, fmt.Sprint(r)
				c.log = append(c.log, map[string]any{"e": "panic", "p": name, "msg": short(p.panicMsg)})
			}
			c.mu.Unlock()
		}()
		f(p)
	}()
}

func (c *ctl) setCreated(t string) {
	c.mu.Lock()
	c.created[t] = true
	c.mu.Unlock()
}

func (c *ctl) isCreated(t string) bool {
	c.mu.Lock()
	defer c.mu.Unlock()
	return c.created[t]
}

// eligible drops the goroutines parked in front of an InsertData into a table that does not exist yet.
func (c *ctl) eligible(ps []*proc) []*proc {
	c.mu.Lock()
	defer c.mu.Unlock()
	var out []*proc
	for _, p := range ps {
		if p.w.label == "ins" && p.cur != nil && !c.created[p.cur.Tab] {
			continue
		}
		out = append(out, p)
	}
	return out
}

func (c *ctl) setCur(p *proc, e *gEntry) {
	c.mu.Lock()
	p.cur = e
	c.mu.Unlock()
}

// mutexWaiters: goroutine id -> true for goroutines whose scheduler wait reason is a
// mutex acquisition made directly by a sqliteWriter method.
var stackBuf = make([]byte, 1<<18) // only the controller goroutine dumps stacks

func mutexWaiters() map[int64]bool {
	buf := stackBuf[:runtime.Stack(stackBuf, true)]
	out := map[int64]bool{}
	for _, blk := range bytes.Split(buf, []byte("\n\n")) {
		lines := strings.Split(string(blk), "\n")
		if len(lines) == 0 || !strings.HasPrefix(lines[0], "goroutine ") {
			continue
		}
		h := lines[0][len("goroutine "):]
		sp := strings.IndexByte(h, ' ')
		if sp < 0 {
			continue
		}
		id, _ := strconv.ParseInt(h[:sp], 10, 64)
		status := h[sp+1:]
		if !strings.HasPrefix(status, "[sync.Mutex.Lock") && !strings.HasPrefix(status, "[semacquire") {
			continue
		}
		for _, l := range lines[1:] {
			if strings.HasPrefix(l, "\t") || strings.HasPrefix(l, "sync.") || strings.HasPrefix(l, "internal/sync.") || strings.HasPrefix(l, "runtime.") {
				continue
			}
			if strings.HasPrefix(l, "github.com/sarchlab/akita/v5/datarecording.(*sqliteWriter)") {
				out[id] = true
			}
			break
		}
	}
	return out
}

// settle waits until no process is running (each is parked at a gate, finished, or
// blocked on the recorder's mutex). It reports a hang after 60 s without that.
func (c *ctl) settle() bool {
	start := time.Now()
	for n := 0; ; n++ {
		c.mu.Lock()
		var running []*proc
		for _, p := range c.procs {
			if p.state == stRunning {
				running = append(running, p)
			}
		}
		c.mu.Unlock()
		if len(running) == 0 {
			return true
		}
		switch {
		case n < 100:
			runtime.Gosched()
		default:
			time.Sleep(30 * time.Microsecond)
		}
		if n >= 100 && n%8 == 0 {
			mw := mutexWaiters()
			c.mu.Lock()
			for _, p := range running {
				if p.state == stRunning && p.gid != 0 && mw[p.gid] {
					p.state = stBlocked
					c.blockedEvents++
				}
			}
			c.mu.Unlock()
		}
		if time.Since(start) > 60*time.Second {
			return false
		}
	}
}

// refreshBlocked puts goroutines that no longer wait for the mutex back to running and
// reports whether there was one.
func (c *ctl) refreshBlocked() bool {
	c.mu.Lock()
	any := false
	for _, p := range c.procs {
		any = any || p.state == stBlocked
	}
	c.mu.Unlock()
	if !any {
		return false
	}
	mw := mutexWaiters()
	changed := false
	c.mu.Lock()
	for _, p := range c.procs {
		if p.state == stBlocked && !mw[p.gid] {
			p.state = stRunning
			changed = true
		}
	}
	c.mu.Unlock()
	return changed
}

// parked returns the parked processes in spawn order; visits of the "location" map
// entry (a length read followed by continue — not a step of the model) are let through
// on the spot.
func (c *ctl) parked() []*proc {
	for {
		c.mu.Lock()
		var ps []*proc
		var pass *proc
		for _, name := range c.order {
			p := c.procs[name]
			if p.state == stParked {
				if p.w.label == "fl_table" && p.w.tab == "location" {
					pass = p
					break
				}
				ps = append(ps, p)
			}
		}
		if pass == nil {
			c.mu.Unlock()
			return ps
		}
		pass.state = stRunning
		ch := pass.w.ch
		c.mu.Unlock()
		close(ch)
		if !c.settle() {
			return nil
		}
	}
}

// release logs the step and lets p run to its next gate.
func (c *ctl) release(p *proc) {
	c.mu.Lock()
	c.log = append(c.log, stepLine(p, p.w.label, p.w.tab))
	p.state = stRunning
	ch := p.w.ch
	c.mu.Unlock()
	close(ch)
}

func (c *ctl) anyPanic() (string, string) {
	c.mu.Lock()
	defer c.mu.Unlock()
	for _, name := range c.order {
		if p := c.procs[name]; p.panicked {
			return name, p.panicMsg
		}
	}
	return "", ""
}

func (c *ctl) allFinished() bool {
	c.mu.Lock()
	defer c.mu.Unlock()
	for _, p := range c.procs {
		if p.state != stFinished {
			return false
		}
	}
	return true
}

// abort opens every gate for good and waits for the goroutines to run out.
func (c *ctl) abort() {
	c.drain.Store(true)
	c.mu.Lock()
	for _, p := range c.procs {
		if p.state == stParked {
			p.state = stRunning
			close(p.w.ch)
		}
	}
	c.mu.Unlock()
	for t0 := time.Now(); time.Since(t0) < 30*time.Second && !c.allFinished(); {
		time.Sleep(200 * time.Microsecond)
	}
}
