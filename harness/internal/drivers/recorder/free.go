package recorder

import (
	"database/sql"
	"encoding/json"
	"fmt"
	"math"
	"math/rand"
	"os"
	"path/filepath"
	"runtime"
	"sync"
	"sync/atomic"
	"time"

	dr "github.com/sarchlab/akita/v5/datarecording"

	"verif/harness/internal/reg"
)

var freeTables = []tableSpec{{"t1", "wide"}, {"t2", "narrow"}, {"t3", "twoloc"}, {"t4", "ge"}}

type freeResult struct {
	Run        int     `json:"run"`
	Inserters  int     `json:"inserters"`
	Flusher    bool    `json:"flusher"`
	Batch      int     `json:"batch"`
	Procs      int     `json:"procs"`
	Entries    int     `json:"entries"`
	EmptyFirst bool    `json:"empty_location_first"`
	Late       int     `json:"late_tables"` // tables created by the first inserter in mid-run
	Flushes    int     `json:"flushes"`     // transactions begun (seen at the hook)
	Overlap    bool    `json:"overlap"`     // a call of one goroutine overlapped a flush of another (log order)
	Crashed    bool    `json:"crashed"`
	PanicMsg   string  `json:"panic_msg,omitempty"`
	PanicIn    string  `json:"panic_in,omitempty"`
	Verdict    verdict `json:"verdict"`
	Sample     string  `json:"sample,omitempty"`
	Millis     int64   `json:"ms"`
}

type freeOpts struct {
	MaxIns   int  `json:"max_inserters"`
	MaxPer   int  `json:"max_per_inserter"`
	Singles  int  `json:"single_every"` // every n-th run: one goroutine does everything (inserts, flushes, close)
	Single   bool `json:"-"`
	Rich     bool `json:"rich"`
	Above63  bool `json:"above63"`
	TLCLimit int  `json:"tlc_limit"` // runs larger than this are not written to the TLC trace
	BudgetS  int  `json:"budget_s"`  // stop starting runs after this many seconds (0: no limit)
}

// overlap scans the mutex-ordered log: did a call of one goroutine run while another
// goroutine was between BEGIN and the return of the call that flushed?
func overlap(log []map[string]any) (bool, int) {
	inCall := map[string]bool{}
	flushing := map[string]bool{}
	ov := false
	begun := 0
	for _, m := range log {
		p, _ := m["p"].(string)
		switch m["e"] {
		case "step":
			switch m["l"] {
			case "ins", "fl_check":
				inCall[p] = true
				for q, f := range flushing {
					if f && q != p {
						ov = true
					}
				}
			case "fl_begin":
				flushing[p] = true
				begun++
				for q, c := range inCall {
					if c && q != p {
						ov = true
					}
				}
			}
		case "ret":
			inCall[p], flushing[p] = false, false
		}
	}
	return ov, begun
}

func runFree(run int, o freeOpts, dir string, rng *rand.Rand) (out []map[string]any, res freeResult) {
	res = freeResult{Run: run}
	t0 := time.Now()
	defer func() { res.Millis = time.Since(t0).Milliseconds() }()
	base := filepath.Join(dir, fmt.Sprintf("f%d-%d", run, fileSeq.Add(1)))
	file := base + ".sqlite3"
	defer os.Remove(file)
	defer closeRaw()
	res.Procs = []int{1, 2, 4, 16}[rng.Intn(4)]
	defer runtime.GOMAXPROCS(runtime.GOMAXPROCS(res.Procs))
	res.Batch = []int{1, 2, 3, 5, 17, 100, 100000}[rng.Intn(7)]
	res.Inserters = 2 + rng.Intn(max(1, o.MaxIns-1))
	res.Flusher = rng.Intn(3) > 0
	if o.Single {
		res.Inserters, res.Flusher = 1, false
	}
	c := newCtl(true)
	// The pool is opened here only to shorten SQLite's busy handler: goroutines that end up on
	// different connections (possible only when flushes overlap) would otherwise wait 5-15 s
	// before failing. With one writer at a time the setting is never consulted.
	db, err := sql.Open("sqlite", file+"?_pragma=busy_timeout(150)")
	if err != nil {
		panic(err)
	}
	_ = os.Remove(file)
	rec := dr.NewDataRecorderWithDB(db)
	// t1 and t2 exist from the start; t3 and t4 (both with location columns) mostly arrive later, created by the
	// first inserter in the middle of its program — after earlier inserts and flushes, while the others keep going
	var made [4]atomic.Bool
	var lateTabs []int
	for ti, t := range freeTables {
		if ti >= 2 && rng.Intn(3) > 0 {
			lateTabs = append(lateTabs, ti)
			continue
		}
		rec.CreateTable(t.Name, shapes[t.Shape])
		made[ti].Store(true)
	}
	dr.VerifSetBatchSize(rec, res.Batch)
	dr.VerifGate = c.gate
	initTabs := []string{}
	for ti, t := range freeTables {
		if made[ti].Load() {
			initTabs = append(initTabs, t.Name)
		}
	}
	c.log = append(c.log, map[string]any{"e": "start", "run": run, "batch": res.Batch, "init": initTabs})
	// programs (generated up front from the seed)
	tok := map[string]string{}
	token := func(s string) string {
		if t, ok := tok[s]; ok {
			return t
		}
		tok[s] = fmt.Sprintf("L%d", len(tok)+1)
		return tok[s]
	}
	inserted := map[string][]any{}
	type item struct {
		tab    string
		ti     int
		e      any
		ge     gEntry
		flush  bool
		create int // > 0: not an entry but CreateTable(freeTables[create])
	}
	progs := make([][]item, res.Inserters)
	id := 0
	gopt := genOpts{rich: o.Rich, above63: o.Above63, nlocs: 1 + rng.Intn(40)}
	emptyFirst := rng.Intn(3) > 0
	res.EmptyFirst = emptyFirst
	for i := range progs {
		n := 1 + rng.Intn(o.MaxPer)
		for j := 0; j < n; j++ {
			id++
			ti := rng.Intn(len(freeTables))
			t := freeTables[ti]
			e := gen(rng, t.Shape, id, gopt)
			if emptyFirst && (j == 0 || rng.Intn(12) == 0) {
				e = emptyLocs(e) // every goroutine starts with the empty location string; it comes back later
			}
			loc := "-"
			if ls := locsOf(e); len(ls) > 0 {
				loc = token(ls[0])
				for _, l := range ls {
					token(l)
				}
			}
			progs[i] = append(progs[i], item{tab: t.Name, ti: ti, e: e, ge: gEntry{ID: id, Tab: t.Name, Loc: loc}, flush: o.Single && rng.Intn(7) == 0})
			if res.Sample == "" && t.Shape == "wide" {
				res.Sample = short(render(e))
			}
		}
	}
	{
		at := map[int][]int{} // position in the first inserter's program -> tables created there
		for _, ti := range lateTabs {
			k := rng.Intn(len(progs[0]) + 1)
			at[k] = append(at[k], ti)
		}
		var p0 []item
		for k := 0; k <= len(progs[0]); k++ {
			for _, ti := range at[k] {
				p0 = append(p0, item{create: ti, flush: rng.Intn(3) > 0})
			}
			if k < len(progs[0]) {
				p0 = append(p0, progs[0][k])
			}
		}
		progs[0] = p0
	}
	done := make([][]item, res.Inserters) // what each goroutine really inserted (an entry for a table that is not there yet is skipped)
	var stop atomic.Bool
	var wg sync.WaitGroup
	ret := func(p *proc) {
		c.mu.Lock()
		c.log = append(c.log, map[string]any{"e": "ret", "p": p.name})
		c.mu.Unlock()
	}
	seeds := make([]int64, res.Inserters+1)
	for i := range seeds {
		seeds[i] = rng.Int63()
	}
	for i := range progs {
		i := i
		wg.Add(1)
		c.spawn(insNames[i], func(p *proc) {
			defer wg.Done()
			lr := rand.New(rand.NewSource(seeds[i]))
			for _, it := range progs[i] {
				if stop.Load() {
					return
				}
				if it.create > 0 {
					if it.flush {
						rec.Flush() // interning happens at flush time: the dictionary is in use when the table arrives
						ret(p)
					}
					rec.CreateTable(freeTables[it.create].Name, shapes[freeTables[it.create].Shape])
					made[it.create].Store(true)
					continue
				}
				if !made[it.ti].Load() {
					continue
				}
				done[i] = append(done[i], it)
				c.mu.Lock()
				p.cur = &gEntry{ID: it.ge.ID, Tab: it.ge.Tab, Loc: it.ge.Loc}
				c.log = append(c.log, stepLine(p, "ins", it.ge.Tab))
				c.mu.Unlock()
				rec.InsertData(it.tab, it.e)
				ret(p)
				if it.flush {
					rec.Flush()
					ret(p)
				}
				if lr.Intn(4) == 0 {
					runtime.Gosched()
				}
			}
		})
	}
	var insDone atomic.Bool
	var fwg sync.WaitGroup
	if res.Flusher {
		fwg.Add(1)
		c.spawn("f", func(p *proc) {
			defer fwg.Done()
			lr := rand.New(rand.NewSource(seeds[res.Inserters]))
			for !insDone.Load() && !stop.Load() {
				rec.Flush()
				ret(p)
				switch lr.Intn(3) {
				case 0:
					runtime.Gosched()
				case 1:
					time.Sleep(time.Duration(lr.Intn(200)) * time.Microsecond)
				}
			}
		})
	}
	// a panic anywhere ends a real program: tell the others to stop
	go func() {
		for !insDone.Load() {
			if n, _ := c.anyPanic(); n != "" {
				stop.Store(true)
				return
			}
			time.Sleep(200 * time.Microsecond)
		}
	}()
	wg.Wait()
	insDone.Store(true)
	fwg.Wait()
	if n, msg := c.anyPanic(); n != "" {
		res.Crashed, res.PanicIn, res.PanicMsg = true, n, short(msg)
		closeDB(rec)
	} else {
		done := make(chan struct{})
		c.spawn("c", func(p *proc) {
			defer close(done)
			if err := rec.Close(); err != nil {
				panic("Close returned " + err.Error())
			}
		})
		<-done
		for !c.allFinished() {
			runtime.Gosched()
		}
		if n, msg := c.anyPanic(); n != "" {
			res.Crashed, res.PanicIn, res.PanicMsg = true, n, short(msg)
			closeDB(rec)
		}
	}
	dr.VerifGate = nil
	c.mu.Lock()
	log := c.log
	c.mu.Unlock()
	res.Entries = 0
	for _, d := range done {
		for _, it := range d {
			inserted[it.tab] = append(inserted[it.tab], it.e)
			res.Entries++
		}
	}
	var madeTables []tableSpec
	for ti, t := range freeTables {
		if made[ti].Load() {
			madeTables = append(madeTables, t)
		}
	}
	res.Late = len(lateTabs)
	res.Overlap, res.Flushes = overlap(log)
	rowsOut := map[string][][2]int64{}
	for _, t := range freeTables {
		rowsOut[t.Name] = [][2]int64{}
	}
	locsOut := [][2]any{}
	if !res.Crashed {
		res.Verdict = judge(file, madeTables, inserted)
		rows, locs, err := rawRows(file, madeTables)
		if err != nil {
			res.Verdict.OK, res.Verdict.Symptom, res.Verdict.Detail = false, "read_error", err.Error()
		} else {
			for name, r := range rows {
				rowsOut[name] = r
			}
			unknown := 0
			for _, l := range locs {
				s := l[1].(string)
				t, ok := tok[s]
				if !ok {
					unknown++
					t = fmt.Sprintf("?%d", unknown)
				}
				locsOut = append(locsOut, [2]any{l[0], t})
			}
			locsOut = append(locsOut, [2]any{0, "-"}) // tables without a location column store "location id" 0
		}
	}
	// the TLC file gets start, InsertData calls, end
	for _, m := range log {
		if m["e"] == "start" || (m["e"] == "step" && m["l"] == "ins") {
			out = append(out, m)
		}
	}
	out = append(out, map[string]any{"e": "end", "run": run, "crashed": res.Crashed, "rows": rowsOut, "locs": locsOut})
	return out, res
}

// ---- sequential round trips of values and flush patterns (one goroutine)

type valueResult struct {
	Case       string  `json:"case"`
	Shape      string  `json:"shape"`
	Class      string  `json:"class"`
	Batch      int     `json:"batch"`
	Entries    int     `json:"entries"`
	Pattern    string  `json:"pattern"`
	EmptyFirst bool    `json:"empty_location_first"` // the first entry (and a later one) has the empty string as its location
	Late       bool    `json:"late_tables"`          // t2 and t3 are created after earlier inserts (and mostly after a flush)
	Rejected   bool    `json:"rejected"`             // CreateTable refused the shape: its kinds are not "allowed"
	Crashed    bool    `json:"crashed"`
	PanicMsg   string  `json:"panic_msg,omitempty"`
	Verdict    verdict `json:"verdict"`
	Sample     string  `json:"sample,omitempty"`
}

func runValues(k int, shape, class string, batch int, pattern string, late bool, n int, dir string, rng *rand.Rand) (res valueResult) {
	res = valueResult{Case: fmt.Sprintf("v%d", k), Shape: shape, Class: class, Batch: batch, Pattern: pattern, Late: late}
	base := filepath.Join(dir, fmt.Sprintf("v%d-%d", k, fileSeq.Add(1)))
	file := base + ".sqlite3"
	defer os.Remove(file)
	defer closeRaw()
	var rec dr.DataRecorder
	defer func() {
		if r := recover(); r != nil {
			res.Crashed, res.PanicMsg = true, short(fmt.Sprint(r))
			if rec != nil {
				closeDB(rec)
			}
		}
	}()
	rec = dr.NewDataRecorder(base)
	// t3 has another shape: tables of different shapes, created at different times, share the location dictionary
	other := map[string]string{"wide": "twoloc", "twoloc": "ge", "ge": "wide", "narrow": "ge"}[shape]
	tables := []tableSpec{{"t1", shape}, {"t2", shape}}
	if other != "" && class == "storable" {
		tables = append(tables, tableSpec{"t3", other})
	}
	made := len(tables)
	createAt := map[int]bool{}
	if late {
		made = 1
		for i := 1; i < len(tables); i++ {
			createAt[1+rng.Intn(n+1)] = true // before entry number …, or after the last one
		}
	}
	creating := true
	defer func() {
		if creating {
			if r := recover(); r != nil {
				res.Rejected, res.PanicMsg = true, short(fmt.Sprint(r))
				closeDB(rec)
			}
		}
	}()
	for _, t := range tables[:made] {
		rec.CreateTable(t.Name, shapes[t.Shape])
	}
	creating = false
	createNext := func() {
		if made < len(tables) {
			if rng.Intn(3) > 0 {
				rec.Flush() // interning happens at flush time: the dictionary is in use when the next table arrives
			}
			rec.CreateTable(tables[made].Name, shapes[tables[made].Shape])
			made++
		}
	}
	dr.VerifSetBatchSize(rec, batch)
	inserted := map[string][]any{}
	gopt := genOpts{rich: true, nlocs: 1 + rng.Intn(len(strPool)+5)}
	emptyFirst := k%3 != 0
	again := 2 + rng.Intn(n)
	res.EmptyFirst = emptyFirst
	for i := 1; i <= n; i++ {
		if createAt[i] {
			createNext()
		}
		ti := rng.Intn(made)
		e := gen(rng, tables[ti].Shape, i, gopt)
		if emptyFirst && (i == 1 || i == again || (createAt[i] && late)) {
			e = emptyLocs(e) // the empty string is interned first (before any other location), and later again
		}
		if w, ok := e.(Wide); ok {
			switch class {
			case "uint64_above_int64":
				w.U64 = []uint64{1 << 63, math.MaxUint64, 1<<63 + uint64(rng.Int63())}[rng.Intn(3)]
			case "uint_above_int64":
				w.U = []uint{1 << 63, math.MaxUint, 1<<63 + uint(rng.Int63())}[rng.Intn(3)]
			}
			e = w
		}
		t := tables[ti].Name
		inserted[t] = append(inserted[t], e)
		res.Entries++
		if res.Sample == "" {
			res.Sample = short(render(e))
		}
		rec.InsertData(t, e)
		switch pattern {
		case "each":
			rec.Flush()
		case "random":
			if rng.Intn(3) == 0 {
				rec.Flush()
			}
		case "double":
			if rng.Intn(3) == 0 {
				rec.Flush()
				rec.Flush()
			}
		}
	}
	for made < len(tables) && late {
		createNext() // a table created last and left empty
	}
	if err := rec.Close(); err != nil {
		panic("Close returned " + err.Error())
	}
	res.Verdict = judge(file, tables, inserted)
	return res
}

func init() {
	// free: free-running goroutines; only log order under one mutex, never a clock, orders the events
	reg.Register("free", func(raw json.RawMessage) (any, error) {
		var in struct {
			Seed int64  `json:"seed"`
			Dir  string `json:"dir"`
			Out  string `json:"out"`
			Runs int    `json:"runs"`
			freeOpts
		}
		if err := json.Unmarshal(raw, &in); err != nil {
			return nil, err
		}
		rng := rand.New(rand.NewSource(in.Seed))
		f, err := os.Create(in.Out)
		if err != nil {
			return nil, err
		}
		defer f.Close()
		enc := json.NewEncoder(f)
		var results []freeResult
		events, traced := 0, 0
		t0 := time.Now()
		for i := 1; i <= in.Runs; i++ {
			if in.BudgetS > 0 && time.Since(t0) > time.Duration(in.BudgetS)*time.Second {
				break
			}
			o := in.freeOpts
			o.Single = o.Singles > 0 && i%o.Singles == 0
			log, r := runFree(i, o, in.Dir, rng)
			results = append(results, r)
			if in.TLCLimit == 0 || r.Entries <= in.TLCLimit {
				traced++
				for _, m := range log {
					if err := enc.Encode(m); err != nil {
						return nil, err
					}
				}
				events += len(log)
			}
		}
		return map[string]any{"runs": len(results), "traced": traced, "events": events, "results": results}, nil
	})
	// values: sequential round trips — every shape x value class x batch size x flush pattern
	reg.Register("values", func(raw json.RawMessage) (any, error) {
		var in struct {
			Seed     int64  `json:"seed"`
			Dir      string `json:"dir"`
			Rounds   int    `json:"rounds"`
			N        int    `json:"n"`
			BothLate bool   `json:"both_late"` // every combination with tables up front and with tables created late (else alternating)
		}
		if err := json.Unmarshal(raw, &in); err != nil {
			return nil, err
		}
		rng := rand.New(rand.NewSource(in.Seed))
		var results []valueResult
		k := 0
		for round := 0; round < in.Rounds; round++ {
			for _, shape := range []string{"wide", "narrow", "twoloc", "ge"} {
				for _, batch := range []int{1, 2, 3, 100000} {
					for _, pattern := range []string{"none", "each", "random", "double"} {
						lates := []bool{false, true}
						if !in.BothLate {
							lates = []bool{(round+len(results))%2 == 1} // alternate
						}
						for _, late := range lates {
							k++
							results = append(results, runValues(k, shape, "storable", batch, pattern, late, 1+rng.Intn(in.N), in.Dir, rng))
						}
					}
				}
			}
		}
		for _, c := range [][2]string{{"wide", "uint64_above_int64"}, {"wide", "uint_above_int64"}, {"cplx128", "complex"}, {"cplx64", "complex"}} {
			for _, batch := range []int{1, 100000} {
				k++
				results = append(results, runValues(k, c[0], c[1], batch, "none", false, 3, in.Dir, rng))
			}
		}
		return map[string]any{"runs": len(results), "results": results}, nil
	})
}
