package recorder

import (
	"database/sql"
	"encoding/json"
	"fmt"
	"math/rand"
	"os"
	"path/filepath"
	"reflect"
	"sync/atomic"
	"time"

	dr "github.com/sarchlab/akita/v5/datarecording"

	"verif/harness/internal/reg"
)

// schedStep is one step of a Recorder.tla behaviour (CASE.sched).
type schedStep struct {
	P   string `json:"p"`
	L   string `json:"l"`
	T   string `json:"t"`
	ID  int    `json:"id"`
	Loc string `json:"loc"`
}

type gatedCase struct {
	Name    string              `json:"name"`
	Batch   int                 `json:"batch"`
	Tables  []string            `json:"tables"`
	Init    []string            `json:"init"`    // tables created before the goroutines start (nil: all); the others are created by "create" ops
	Sched   []schedStep         `json:"sched"`   // nil: seeded random schedule
	Prog    map[string][]gEntry `json:"prog"`    // inserter -> ops: entries to insert, tables to create (derived from Sched when nil)
	Flushes int                 `json:"flushes"` // explicit Flush calls of process "f"
	Outcome string              `json:"outcome"` // the model's prediction (informational)
}

type gatedResult struct {
	Run        int     `json:"run"`
	Name       string  `json:"name"`
	Batch      int     `json:"batch"`
	Steps      int     `json:"steps"`
	Followed   bool    `json:"followed"`    // the given schedule was followed to its end
	DivergedAt int     `json:"diverged_at"` // first schedule position the real code could not take (-1: none)
	Attempts   int     `json:"attempts"`
	Blocked    int     `json:"blocked"` // goroutines seen waiting for the recorder's mutex
	Crashed    bool    `json:"crashed"`
	PanicProc  string  `json:"panic_proc,omitempty"`
	PanicMsg   string  `json:"panic_msg,omitempty"`
	Hang       bool    `json:"hang,omitempty"`
	CloseErr   string  `json:"close_err,omitempty"`
	Verdict    verdict `json:"verdict"`
	Outcome    string  `json:"outcome,omitempty"`
}

// program derives what each process does from a model behaviour.
func (g *gatedCase) fill() {
	if g.Prog != nil {
		return
	}
	g.Prog = map[string][]gEntry{}
	g.Flushes = 0
	for _, s := range g.Sched {
		if s.L == "ins" {
			g.Prog[s.P] = append(g.Prog[s.P], gEntry{ID: s.ID, Tab: s.T, Loc: s.Loc})
		}
		if s.L == "create" {
			g.Prog[s.P] = append(g.Prog[s.P], gEntry{Create: true, Tab: s.T})
		}
		if s.P == "f" && s.L == "call" {
			g.Flushes++
		}
	}
}

var fileSeq atomic.Int64

var insNames = []string{"i1", "i2", "i3", "i4", "i5", "i6", "i7", "i8"}

// runGated performs one gated run and returns the log (start … end) and the result.
func runGated(g gatedCase, run int, dir string, rng *rand.Rand) ([]map[string]any, gatedResult) {
	g.fill()
	res := gatedResult{Run: run, Name: g.Name, Batch: g.Batch, DivergedAt: -1, Followed: g.Sched != nil, Outcome: g.Outcome}
	base := filepath.Join(dir, fmt.Sprintf("g%d-%d", run, fileSeq.Add(1))) // never reuse a name: goroutines of an aborted run may still be draining
	file := base + ".sqlite3"
	defer os.Remove(file)
	defer closeRaw()
	var tables []tableSpec
	for _, t := range g.Tables {
		tables = append(tables, tableSpec{t, "ge"})
	}
	c := newCtl(false)
	rec := dr.NewDataRecorder(base)
	if g.Init == nil {
		g.Init = g.Tables
	}
	for _, t := range g.Init {
		rec.CreateTable(t, GE{})
		c.created[t] = true
	}
	dr.VerifSetBatchSize(rec, g.Batch)
	dr.VerifGate = c.gate
	defer func() { dr.VerifGate = nil }()
	c.log = append(c.log, map[string]any{"e": "start", "run": run, "batch": g.Batch, "init": g.Init})
	// the model's location names stand for real strings; in two runs out of three one of them is the EMPTY string
	// (the zero value of the column's Go type), in the others an awkward one
	real := map[string]string{"a": "a", "b": "b", "c": "c"}
	switch k := rng.Intn(9); {
	case k < 6:
		real[[]string{"a", "b", "c"}[k%3]] = ""
	case k < 8:
		real[[]string{"a", "b", "c"}[k%3]] = "it's \"日本\"\x00;--"
	}
	model := map[string]string{}
	for m, r := range real {
		model[r] = m
	}
	inserted := map[string][]any{}
	for _, name := range insNames {
		es, ok := g.Prog[name]
		if !ok {
			continue
		}
		for _, e := range es {
			if !e.Create {
				inserted[e.Tab] = append(inserted[e.Tab], GE{ID: e.ID, Who: name, Loc: real[e.Loc], Skip: e.ID * 7})
			}
		}
		name := name
		c.spawn(name, func(p *proc) {
			for i := range es {
				e := es[i]
				c.setCur(p, &e)
				if e.Create {
					c.gate("create") // the harness's own gate: CreateTable takes the mutex at once
					rec.CreateTable(e.Tab, GE{})
					c.setCreated(e.Tab)
					continue
				}
				rec.InsertData(e.Tab, GE{ID: e.ID, Who: name, Loc: real[e.Loc], Skip: e.ID * 7})
			}
		})
	}
	if g.Flushes > 0 {
		c.spawn("f", func(p *proc) {
			for i := 0; i < g.Flushes; i++ {
				c.gate("call") // the harness's own gate: Flush takes the mutex before its first hook gate
				rec.Flush()
			}
		})
	}
	pos := 0
	closing := false
	end := func(rows any, locs any) []map[string]any {
		c.mu.Lock()
		defer c.mu.Unlock()
		res.Steps = len(c.log) - 1
		res.Blocked = c.blockedEvents
		c.log = append(c.log, map[string]any{"e": "end", "run": run, "crashed": res.Crashed || res.Hang || res.CloseErr != "", "rows": rows, "locs": locs})
		return c.log
	}
	empty := map[string][][2]int64{}
	for _, t := range g.Tables {
		empty[t] = [][2]int64{}
	}
	idle := 0
	var idleSince time.Time
	for {
		// nobody runs: every goroutine is parked at a gate, finished, or waits for the recorder's mutex
		// (a waiter that has just been handed the mutex is running again: wait for it as well)
		settled := true
		for {
			c.refreshBlocked()
			if settled = c.settle(); !settled || !c.refreshBlocked() {
				break
			}
		}
		if !settled {
			res.Hang = true
			c.abort()
			closeDB(rec)
			return end(empty, [][2]any{}), res
		}
		if name, msg := c.anyPanic(); name != "" {
			// a panic in any goroutine ends a real program; let the others run out and stop
			res.Crashed, res.PanicProc, res.PanicMsg = true, name, short(msg)
			c.abort()
			closeDB(rec)
			return end(empty, [][2]any{}), res
		}
		ps := c.parked()
		waiting := len(ps)
		ps = c.eligible(ps)
		if len(ps) == 0 && waiting > 0 {
			// everybody parked wants to insert into a table that its creator (waiting for the mutex) has not made yet
			idle++
			if idle == 1 {
				idleSince = time.Now()
			}
			if time.Since(idleSince) < 30*time.Second {
				time.Sleep(100 * time.Microsecond)
				continue
			}
			res.Hang = true
			c.abort()
			closeDB(rec)
			return end(empty, [][2]any{}), res
		}
		if len(ps) == 0 {
			if c.allFinished() {
				if closing {
					break
				}
				closing = true
				c.spawn("c", func(p *proc) {
					c.gate("call")
					if err := rec.Close(); err != nil {
						panic("Close returned " + err.Error())
					}
				})
				continue
			}
			// nobody parked: a goroutine that waited for the mutex is on its way, or stuck for good
			if idle == 0 {
				idleSince = time.Now()
			}
			idle++
			if time.Since(idleSince) < 30*time.Second {
				time.Sleep(100 * time.Microsecond)
				continue
			}
			res.Hang = true
			c.abort()
			closeDB(rec)
			return end(empty, [][2]any{}), res
		}
		idle = 0
		var pick *proc
		if g.Sched != nil && res.DivergedAt < 0 {
			if pos < len(g.Sched) {
				s := g.Sched[pos]
				for _, p := range ps {
					if p.name == s.P && p.w.label == s.L && (s.L != "fl_table" || p.w.tab == s.T) {
						pick = p
					}
				}
			}
			if pick == nil {
				res.DivergedAt, res.Followed = pos, false
			} else {
				pos++
			}
		}
		if pick == nil {
			pick = ps[rng.Intn(len(ps))]
		}
		c.release(pick)
	}
	if g.Sched != nil && pos < len(g.Sched) && res.DivergedAt < 0 {
		res.DivergedAt, res.Followed = pos, false
	}
	dr.VerifGate = nil
	var made []tableSpec // a table nobody created does not exist in the file: no rows
	for _, t := range tables {
		if c.isCreated(t.Name) {
			made = append(made, t)
		}
	}
	res.Verdict = judge(file, made, inserted)
	rows, locs, err := rawRows(file, made)
	for _, t := range tables {
		if rows != nil && rows[t.Name] == nil {
			rows[t.Name] = [][2]int64{}
		}
	}
	if err != nil {
		res.CloseErr = "raw read: " + err.Error()
		return end(empty, [][2]any{}), res
	}
	for i := range locs { // back to the model's names for the trace
		if m, ok := model[locs[i][1].(string)]; ok {
			locs[i][1] = m
		} else {
			locs[i][1] = fmt.Sprintf("?%d", i)
		}
	}
	return end(rows, locs), res
}

// closeDB closes the connection pool of a recorder that is abandoned without Close
// (sqliteWriter embeds the exported *sql.DB).
func closeDB(rec dr.DataRecorder) {
	defer func() { _ = recover() }()
	if db, ok := reflect.ValueOf(rec).Elem().FieldByName("DB").Interface().(*sql.DB); ok && db != nil {
		_ = db.Close()
	}
}

// sameTableOrder tells whether a divergence is only the map iteration order (the real
// code visited another table first than the model behaviour did).
func mapOrderDivergence(g gatedCase, r gatedResult) bool {
	return r.DivergedAt >= 0 && r.DivergedAt < len(g.Sched) && g.Sched[r.DivergedAt].L == "fl_table" && len(g.Tables) > 1
}

func randomCase(rng *rand.Rand, k int, tables []string) gatedCase {
	g := gatedCase{Name: fmt.Sprintf("random-%d", k), Tables: tables, Prog: map[string][]gEntry{}}
	g.Batch = []int{1, 2, 3, 4, 5, 8, 1000, 1000}[rng.Intn(8)]
	nIns := 1 + rng.Intn(3)
	id := 0
	locs := []string{"a", "b", "c"}
	for i := 0; i < nIns; i++ {
		n := 1 + rng.Intn(4)
		for j := 0; j < n; j++ {
			id++
			g.Prog[insNames[i]] = append(g.Prog[insNames[i]], gEntry{ID: id, Tab: tables[rng.Intn(len(tables))], Loc: locs[rng.Intn(1+rng.Intn(3))]})
		}
	}
	g.Flushes = rng.Intn(4)
	if len(tables) > 1 && rng.Intn(3) > 0 {
		// the last table is created by one of the inserters somewhere in its program (others wait for it before they insert into it)
		late := tables[len(tables)-1]
		g.Init = tables[:len(tables)-1]
		who := insNames[rng.Intn(nIns)]
		at := rng.Intn(len(g.Prog[who]) + 1)
		for i, e := range g.Prog[who] {
			if e.Tab == late && i < at {
				at = i
			}
		}
		ops := append([]gEntry{}, g.Prog[who][:at]...)
		ops = append(ops, gEntry{Create: true, Tab: late})
		g.Prog[who] = append(ops, g.Prog[who][at:]...)
	}
	return g
}

func init() {
	// gated: TLC behaviours and seeded random schedules on the real recorder through hook H2
	reg.Register("gated", func(raw json.RawMessage) (any, error) {
		var in struct {
			Seed   int64       `json:"seed"`
			Dir    string      `json:"dir"`
			Out    string      `json:"out"`
			Tables []string    `json:"tables"`
			Cases  []gatedCase `json:"cases"`
			Random int         `json:"random"`
			Retry  int         `json:"retry"` // attempts per case when only the map order differed
		}
		if err := json.Unmarshal(raw, &in); err != nil {
			return nil, err
		}
		rng := rand.New(rand.NewSource(in.Seed))
		f, err := os.Create(in.Out)
		if err != nil {
			return nil, err
		}
		defer f.Close()
		enc := json.NewEncoder(f)
		cases := in.Cases
		for k := 0; k < in.Random; k++ {
			cases = append(cases, randomCase(rng, k, in.Tables))
		}
		var results []gatedResult
		events := 0
		for i, g := range cases {
			if g.Tables == nil {
				g.Tables = in.Tables
			}
			var log []map[string]any
			var r gatedResult
			for a := 1; ; a++ {
				log, r = runGated(g, i+1, in.Dir, rng)
				r.Attempts = a
				if a > in.Retry || !mapOrderDivergence(g, r) {
					break
				}
			}
			for _, m := range log {
				if err := enc.Encode(m); err != nil {
					return nil, err
				}
			}
			events += len(log)
			results = append(results, r)
		}
		return map[string]any{"runs": len(results), "events": events, "results": results}, nil
	})
}
