// Package recorder drives the real datarecording.DataRecorder for C35: gated
// schedules (hook H2), free-running goroutines and sequential value round trips;
// every run ends with Close and a read-back of the SQLite file through the real
// DataReader (and through database/sql for the raw location ids).
package recorder

import (
	"context"
	"database/sql"
	"fmt"
	"math"
	"math/rand"
	"reflect"
	"sort"
	"strings"

	dr "github.com/sarchlab/akita/v5/datarecording"
)

// ---- table shapes: every field kind sqliteWriter.isAllowedType accepts, every akita_data tag

// GE is the entry of the gated runs (the model's [id, tab, loc]).
type GE struct {
	ID   int    `akita_data:"index"`
	Who  string // inserting process
	Loc  string `akita_data:"location"`
	Skip int    `akita_data:"ignore"`
}

// Wide has one field of every allowed kind except the complex ones.
type Wide struct {
	ID   int64 `akita_data:"unique"`
	B    bool
	I    int
	I8   int8
	I16  int16
	I32  int32
	I64  int64 `akita_data:"index"`
	U    uint
	U8   uint8
	U16  uint16
	U32  uint32
	U64  uint64
	F32  float32
	F64  float64
	S    string
	Loc  string         `akita_data:"location"`
	Skip []int          `akita_data:"ignore"`
	Ptr  *int           `akita_data:"ignore"`
	Map  map[string]int `akita_data:"ignore"`
}

// Narrow has no tag at all (and so no location table of its own).
type Narrow struct {
	ID int
	S  string
}

// TwoLoc has two interned columns.
type TwoLoc struct {
	ID  uint32 `akita_data:"index"`
	Src string `akita_data:"location"`
	Dst string `akita_data:"location"`
	V   float64
}

// Cplx128 / Cplx64: complex kinds are in the allowed list.
type Cplx128 struct {
	ID int
	Z  complex128
}
type Cplx64 struct {
	ID int
	Z  complex64
}

var shapes = map[string]any{"ge": GE{}, "wide": Wide{}, "narrow": Narrow{}, "twoloc": TwoLoc{}, "cplx128": Cplx128{}, "cplx64": Cplx64{}}

// ---- seeded values

var strPool = []string{
	"", "plain", "it's", `say "hi"`, `'); DROP TABLE t1;--`, "a\x00b", "\x00", "日本語", "🎉 emoji 🎉", "é combining",
	"‮RTL override", "line\nbreak\ttab\r", "%s %d ? ?1 :x @y $z", "NULL", "null", "123", "-0", "1e5", "0x10", "1.0",
	`back\slash\\`, "\xff\xfe invalid utf8", "  padded  ", "ünïcödé", "\u0000\u0001\u0002", "''", `""`, ";", "--", "/* c */",
}

var runePool = []rune("abc'\"\\ \n日🎉\x00%?;-é")

func genString(r *rand.Rand, rich bool) string {
	switch k := r.Intn(10); {
	case k < 6:
		return strPool[r.Intn(len(strPool))]
	case k < 8:
		n := r.Intn(40)
		b := make([]rune, n)
		for i := range b {
			b[i] = runePool[r.Intn(len(runePool))]
		}
		return string(b)
	case k < 9 || !rich:
		return fmt.Sprintf("s%d", r.Int63())
	default:
		return strings.Repeat(strPool[1+r.Intn(len(strPool)-1)], 1+r.Intn(20000)) // very long
	}
}

func genLoc(r *rand.Rand, nlocs int) string {
	k := r.Intn(nlocs)
	if k < len(strPool) {
		return strPool[k]
	}
	return fmt.Sprintf("GPU[%d].SA[%d].L1VCache", k, k%7)
}

func genInt(r *rand.Rand, bits int) int64 {
	lo, hi := int64(-1)<<(bits-1), int64(1)<<(bits-1)-1
	switch r.Intn(6) {
	case 0:
		return lo
	case 1:
		return hi
	case 2:
		return []int64{0, -1, 1}[r.Intn(3)]
	case 3:
		return lo + int64(r.Intn(3))
	default:
		v := r.Int63()
		if r.Intn(2) == 0 {
			v = -v
		}
		if bits < 64 {
			v %= hi + 1
		}
		return v
	}
}

// genUint: above selects whether values >= 2^63 may be produced (64-bit kinds only).
func genUint(r *rand.Rand, bits int, above bool) uint64 {
	hi := uint64(math.MaxUint64)
	if bits < 64 {
		hi = uint64(1)<<bits - 1
	}
	lim := hi
	if bits == 64 && !above {
		lim = math.MaxInt64
	}
	switch r.Intn(5) {
	case 0:
		return lim
	case 1:
		return 0
	case 2:
		return lim - uint64(r.Intn(3))
	default:
		v := r.Uint64()
		if lim < math.MaxUint64 {
			v %= lim + 1
		}
		return v
	}
}

var f64Pool = []float64{0, math.Copysign(0, -1), 1, -1, 0.1, 3, 1e15, 1 << 53, 1<<53 + 2, math.SmallestNonzeroFloat64, 2.2250738585072014e-308,
	math.MaxFloat64, -math.MaxFloat64, math.Inf(1), math.Inf(-1), math.Pi, 1e-300, 1e300, 4.9e-324, 0.30000000000000004}
var f32Pool = []float32{0, float32(math.Copysign(0, -1)), 1, -1, 0.1, 3, 16777216, math.SmallestNonzeroFloat32, math.MaxFloat32, -math.MaxFloat32,
	float32(math.Inf(1)), float32(math.Inf(-1)), 1.17549435e-38, 3.4e-39}

// NaN is left out: SQLite stores NaN as NULL (documented SQLite behaviour), so no
// SQLite-backed recorder can return it; the statement's "any field values" is read as
// "any value SQLite can hold".
func genF64(r *rand.Rand) float64 {
	if r.Intn(2) == 0 {
		return f64Pool[r.Intn(len(f64Pool))]
	}
	for {
		v := math.Float64frombits(r.Uint64())
		if !math.IsNaN(v) {
			return v
		}
	}
}
func genF32(r *rand.Rand) float32 {
	if r.Intn(2) == 0 {
		return f32Pool[r.Intn(len(f32Pool))]
	}
	for {
		v := math.Float32frombits(r.Uint32())
		if v == v {
			return v
		}
	}
}

// emptyLocs returns e with every location column set to the empty string (the zero value of the column's Go type).
func emptyLocs(e any) any {
	v := reflect.New(reflect.TypeOf(e)).Elem()
	v.Set(reflect.ValueOf(e))
	for i := 0; i < v.NumField(); i++ {
		if isLoc(v.Type().Field(i)) {
			v.Field(i).SetString("")
		}
	}
	return v.Interface()
}

type genOpts struct {
	rich    bool // very long strings
	above63 bool // uint/uint64 values >= 2^63
	nlocs   int
}

// gen builds one entry of the shape with the given id.
func gen(r *rand.Rand, shape string, id int, o genOpts) any {
	switch shape {
	case "ge":
		return GE{ID: id, Who: genString(r, false), Loc: genLoc(r, o.nlocs), Skip: r.Int()}
	case "narrow":
		return Narrow{ID: id, S: genString(r, o.rich)}
	case "twoloc":
		return TwoLoc{ID: uint32(id), Src: genLoc(r, o.nlocs), Dst: genLoc(r, o.nlocs), V: genF64(r)}
	case "cplx128":
		return Cplx128{ID: id, Z: complex(genF64(r), genF64(r))}
	case "cplx64":
		return Cplx64{ID: id, Z: complex(genF32(r), genF32(r))}
	default:
		x := r.Int()
		return Wide{ID: int64(id), B: r.Intn(2) == 0, I: int(genInt(r, 64)), I8: int8(genInt(r, 8)), I16: int16(genInt(r, 16)),
			I32: int32(genInt(r, 32)), I64: genInt(r, 64), U: uint(genUint(r, 64, o.above63)), U8: uint8(genUint(r, 8, false)),
			U16: uint16(genUint(r, 16, false)), U32: uint32(genUint(r, 32, false)), U64: genUint(r, 64, o.above63),
			F32: genF32(r), F64: genF64(r), S: genString(r, o.rich), Loc: genLoc(r, o.nlocs),
			Skip: []int{x}, Ptr: &x, Map: map[string]int{"x": x}}
	}
}

// ---- canonical rendering of the non-ignored fields (floats by bit pattern)

func ignored(f reflect.StructField) bool { return strings.Contains(f.Tag.Get("akita_data"), "ignore") }
func isLoc(f reflect.StructField) bool   { return f.Tag.Get("akita_data") == "location" }

func render(e any) string { return renderOpt(e, true) }

// renderOpt leaves the location columns out when locs is false.
func renderOpt(e any, locs bool) string {
	v := reflect.ValueOf(e)
	if v.Kind() == reflect.Pointer {
		v = v.Elem()
	}
	var sb strings.Builder
	for i := 0; i < v.NumField(); i++ {
		f := v.Type().Field(i)
		if ignored(f) || (!locs && isLoc(f)) {
			continue
		}
		fv := v.Field(i)
		switch fv.Kind() {
		case reflect.Float32:
			fmt.Fprintf(&sb, "%s=f32:%08x;", f.Name, math.Float32bits(float32(fv.Float())))
		case reflect.Float64:
			fmt.Fprintf(&sb, "%s=f64:%016x;", f.Name, math.Float64bits(fv.Float()))
		case reflect.String:
			fmt.Fprintf(&sb, "%s=%q;", f.Name, fv.String())
		default:
			fmt.Fprintf(&sb, "%s=%v;", f.Name, fv.Interface())
		}
	}
	return sb.String()
}

func short(s string) string {
	if len(s) > 300 {
		return s[:300] + fmt.Sprintf("…(%d bytes)", len(s))
	}
	return s
}

func idOf(e any) int64 {
	v := reflect.ValueOf(e)
	if v.Kind() == reflect.Pointer {
		v = v.Elem()
	}
	f := v.FieldByName("ID")
	if f.CanInt() {
		return f.Int()
	}
	return int64(f.Uint())
}

func locsOf(e any) []string {
	v := reflect.ValueOf(e)
	if v.Kind() == reflect.Pointer {
		v = v.Elem()
	}
	var out []string
	for i := 0; i < v.NumField(); i++ {
		if isLoc(v.Type().Field(i)) {
			out = append(out, v.Field(i).String())
		}
	}
	return out
}

// ---- read-back and judgement

type tableSpec struct {
	Name  string
	Shape string
}

// verdict is the harness's own judgement of one closed database against what was inserted.
type verdict struct {
	OK         bool     `json:"ok"`
	Symptom    string   `json:"symptom"` // ok | missing | duplicated | foreign_row | field_changed | location_changed | location_mapping | reader_panic | read_error
	Missing    []int64  `json:"missing,omitempty"`
	Duplicated []int64  `json:"duplicated,omitempty"`
	Foreign    []int64  `json:"foreign,omitempty"`
	Changed    []string `json:"changed,omitempty"`
	LocOnly    bool     `json:"-"`
	LocProblem string   `json:"loc_problem,omitempty"`
	Detail     string   `json:"detail,omitempty"`
	Inserted   int      `json:"inserted"`
	Stored     int      `json:"stored"`
}

type locRow struct {
	ID     int
	Locale string
}

// judge reads file back with the real reader and compares with inserted (table -> entries).
func judge(file string, tables []tableSpec, inserted map[string][]any) (v verdict) {
	defer func() {
		if r := recover(); r != nil {
			v.OK, v.Symptom, v.Detail = false, "reader_panic", short(fmt.Sprint(r))
		}
	}()
	rd := dr.NewReader(file)
	defer rd.Close()
	hasLoc := false
	otherChanged := false
	for _, t := range tables {
		rd.MapTable(t.Name, shapes[t.Shape])
		for _, e := range inserted[t.Name] {
			v.Inserted++
			if len(locsOf(e)) > 0 {
				hasLoc = true
			}
		}
		if len(locsOf(shapes[t.Shape])) > 0 {
			hasLoc = true
		}
	}
	if hasLoc {
		rd.MapTable("location", locRow{})
		rows, _, err := rd.Query(context.Background(), "location", dr.QueryParams{})
		if err != nil {
			v.Symptom, v.Detail = "read_error", err.Error()
			return v
		}
		ids, strs := map[int]int{}, map[string]int{}
		for _, r := range rows {
			l := r.(*locRow)
			ids[l.ID]++
			strs[l.Locale]++
		}
		for id, n := range ids {
			if n > 1 {
				v.LocProblem = fmt.Sprintf("location id %d appears %d times", id, n)
			}
		}
		for s, n := range strs {
			if n > 1 {
				v.LocProblem = fmt.Sprintf("location string %q has %d ids", short(s), n)
			}
		}
	}
	for _, t := range tables {
		rows, total, err := rd.Query(context.Background(), t.Name, dr.QueryParams{})
		if err != nil {
			v.Symptom, v.Detail = "read_error", err.Error()
			return v
		}
		if total != len(rows) {
			v.Symptom, v.Detail = "read_error", fmt.Sprintf("count %d but %d rows", total, len(rows))
			return v
		}
		v.Stored += len(rows)
		want := map[int64]string{}
		wantNoLoc := map[int64]string{}
		for _, e := range inserted[t.Name] {
			want[idOf(e)] = render(e)
			wantNoLoc[idOf(e)] = renderOpt(e, false)
		}
		seen := map[int64]int{}
		for _, r := range rows {
			id := idOf(r)
			seen[id]++
			w, ok := want[id]
			if !ok {
				v.Foreign = append(v.Foreign, id)
				continue
			}
			if g := render(r); g != w {
				if renderOpt(r, false) != wantNoLoc[id] {
					otherChanged = true
				}
				if len(v.Changed) < 5 {
					v.Changed = append(v.Changed, fmt.Sprintf("%s id %d: inserted %s stored %s", t.Name, id, short(w), short(g)))
				}
			}
		}
		for id := range want {
			switch n := seen[id]; {
			case n == 0:
				v.Missing = append(v.Missing, id)
			case n > 1:
				v.Duplicated = append(v.Duplicated, id)
			}
		}
	}
	// the reader resolves ids to strings (and resolves an id that is not in the dictionary to ""), so the dictionary is
	// also looked at directly
	if v.LocProblem == "" && hasLoc {
		v.LocProblem = inspectLocations(file, tables, inserted)
	}
	sort.Slice(v.Missing, func(i, j int) bool { return v.Missing[i] < v.Missing[j] })
	sort.Slice(v.Duplicated, func(i, j int) bool { return v.Duplicated[i] < v.Duplicated[j] })
	switch {
	case len(v.Duplicated) > 0:
		v.Symptom = "duplicated"
	case len(v.Missing) > 0:
		v.Symptom = "missing"
	case len(v.Foreign) > 0:
		v.Symptom = "foreign_row"
	case len(v.Changed) > 0 && otherChanged:
		v.Symptom = "field_changed"
	case len(v.Changed) > 0:
		v.Symptom = "location_changed" // only location columns differ (the id no longer resolves to the string)
	case v.LocProblem != "":
		v.Symptom = "location_mapping"
	default:
		v.OK, v.Symptom = true, "ok"
	}
	return v
}

// rawDB opens the closed recorder's file for direct SQL (one connection per file, shared by the inspections of one run;
// the drivers run their cases one after the other).
var rawCache struct {
	file string
	db   *sql.DB
}

func rawDB(file string) (*sql.DB, error) {
	if rawCache.file == file && rawCache.db != nil {
		return rawCache.db, nil
	}
	closeRaw()
	db, err := sql.Open("sqlite", file)
	if err != nil {
		return nil, err
	}
	rawCache.file, rawCache.db = file, db
	return db, nil
}

func closeRaw() {
	if rawCache.db != nil {
		_ = rawCache.db.Close()
	}
	rawCache.file, rawCache.db = "", nil
}

// inspectLocations reads the SQLite file without the DataReader: the location table maps ids to strings one-to-one
// (no id twice, no string twice, no id below 1), and every location id stored in a row of a data table is in the
// location table and names the string the entry was inserted with. It returns the first problem, or "".
func inspectLocations(file string, tables []tableSpec, inserted map[string][]any) string {
	db, err := rawDB(file)
	if err != nil {
		return "cannot open the database: " + err.Error()
	}
	dict := map[int64]string{}
	ids := map[string]int64{}
	rs, err := db.Query("SELECT ID, Locale FROM location ORDER BY rowid")
	if err != nil {
		return "cannot read the location table: " + err.Error()
	}
	for rs.Next() {
		var id sql.NullInt64
		var str sql.NullString
		if err := rs.Scan(&id, &str); err != nil {
			rs.Close()
			return "location row: " + err.Error()
		}
		switch {
		case !id.Valid || !str.Valid:
			rs.Close()
			return "location row with NULL"
		case id.Int64 < 1:
			rs.Close()
			return fmt.Sprintf("location id %d (ids start at 1)", id.Int64)
		}
		if old, dup := dict[id.Int64]; dup {
			rs.Close()
			return fmt.Sprintf("location id %d stands for %q and %q", id.Int64, short(old), short(str.String))
		}
		if old, dup := ids[str.String]; dup {
			rs.Close()
			return fmt.Sprintf("location string %q has ids %d and %d", short(str.String), old, id.Int64)
		}
		dict[id.Int64], ids[str.String] = str.String, id.Int64
	}
	rs.Close()
	for _, t := range tables {
		typ := reflect.TypeOf(shapes[t.Shape])
		var cols []string
		for i := 0; i < typ.NumField(); i++ {
			if isLoc(typ.Field(i)) {
				cols = append(cols, typ.Field(i).Name)
			}
		}
		if len(cols) == 0 {
			continue
		}
		want := map[int64][]string{}
		for _, e := range inserted[t.Name] {
			want[idOf(e)] = locsOf(e)
		}
		rs, err := db.Query("SELECT ID, " + strings.Join(cols, ", ") + " FROM " + t.Name + " ORDER BY rowid")
		if err != nil {
			return "cannot read " + t.Name + ": " + err.Error()
		}
		for rs.Next() {
			var id int64
			lids := make([]sql.NullInt64, len(cols))
			dst := []any{&id}
			for i := range lids {
				dst = append(dst, &lids[i])
			}
			if err := rs.Scan(dst...); err != nil {
				rs.Close()
				return fmt.Sprintf("%s: location column is not an integer id: %v", t.Name, err)
			}
			for i, l := range lids {
				str, ok := dict[l.Int64]
				switch {
				case !l.Valid:
					rs.Close()
					return fmt.Sprintf("%s id %d: column %s is NULL", t.Name, id, cols[i])
				case !ok:
					rs.Close()
					return fmt.Sprintf("%s id %d: column %s holds location id %d, which is not in the location table (dangling)", t.Name, id, cols[i], l.Int64)
				}
				if w, known := want[id]; known && i < len(w) && w[i] != str {
					rs.Close()
					return fmt.Sprintf("%s id %d: column %s holds location id %d = %q, inserted with %q", t.Name, id, cols[i], l.Int64, short(str), short(w[i]))
				}
			}
		}
		rs.Close()
	}
	return ""
}

// rawRows reads <<id, location id>> per table and the location table in rowid order
// straight from SQLite (the reader replaces the id by the string).
func rawRows(file string, tables []tableSpec) (rows map[string][][2]int64, locs [][2]any, err error) {
	db, err := rawDB(file)
	if err != nil {
		return nil, nil, err
	}
	rows = map[string][][2]int64{}
	anyLoc := false
	for _, t := range tables {
		rows[t.Name] = [][2]int64{}
		col := ""
		typ := reflect.TypeOf(shapes[t.Shape])
		for i := 0; i < typ.NumField(); i++ {
			if isLoc(typ.Field(i)) && col == "" {
				col = typ.Field(i).Name
			}
		}
		q := "SELECT ID, 0 FROM " + t.Name + " ORDER BY rowid"
		if col != "" {
			q = "SELECT ID, " + col + " FROM " + t.Name + " ORDER BY rowid"
			anyLoc = true
		}
		rs, err := db.Query(q)
		if err != nil {
			return nil, nil, err
		}
		for rs.Next() {
			var a, b int64
			if err := rs.Scan(&a, &b); err != nil {
				rs.Close()
				return nil, nil, err
			}
			rows[t.Name] = append(rows[t.Name], [2]int64{a, b})
		}
		rs.Close()
	}
	locs = [][2]any{}
	if anyLoc {
		rs, err := db.Query("SELECT ID, Locale FROM location ORDER BY rowid")
		if err != nil {
			return rows, locs, nil // no location table (never created): nothing interned
		}
		defer rs.Close()
		for rs.Next() {
			var a int64
			var s string
			if err := rs.Scan(&a, &s); err != nil {
				return nil, nil, err
			}
			locs = append(locs, [2]any{a, s})
		}
	}
	return rows, locs, nil
}
