package container

import (
	"encoding/json"
	"strings"

	"github.com/sarchlab/akita/v5/queueing"

	"verif/harness/internal/reg"
	"verif/harness/internal/replay"
)

// C14: queueing.Buffer[int] stepped through Buffer.tla behaviours.
type bufObj struct {
	b queueing.Buffer[int]
}

func (o *bufObj) Project() any {
	if o.b.Name() != "B" {
		return map[string]any{"cap": o.b.Capacity(), "q": o.b.Elements(), "name": o.b.Name()}
	}
	return map[string]any{"cap": o.b.Capacity(), "q": o.b.Elements()}
}

func refusal(f func()) (res any) {
	defer func() {
		if r := recover(); r != nil {
			res = "refused"
		}
	}()
	f()
	return "ok"
}

func (o *bufObj) Apply(a map[string]any) any {
	switch replay.Str(a["op"]) {
	case "canpush":
		return o.b.CanPush()
	case "size":
		return o.b.Size()
	case "capacity":
		return o.b.Capacity()
	case "peek":
		return o.b.Peek()
	case "elements":
		return o.b.Elements()
	case "push":
		v := replay.Num(a["arg"])
		can := o.b.CanPush()
		r := refusal(func() { o.b.PushTyped(v) })
		if (r == "ok") != can {
			return "CanPush=" + map[bool]string{true: "true", false: "false"}[can] + " but push " + r.(string)
		}
		return r
	case "pop":
		return o.b.Pop()
	case "updatefront":
		o.b.UpdateFront(replay.Num(a["arg"]))
		return "ok"
	case "clear":
		o.b.Clear()
		return "ok"
	case "snaprestore":
		els := o.b.Elements()
		nb := queueing.NewBuffer[int](o.b.Name(), o.b.Capacity())
		nb.Restore(els)
		// mutating the snapshot must not affect either buffer
		for i := range els {
			els[i] = -7
		}
		o.b = nb
		return "ok"
	case "jsonrt":
		bs, err := json.Marshal(o.b)
		if err != nil {
			return "marshal error: " + err.Error()
		}
		var nb queueing.Buffer[int]
		if err := json.Unmarshal(bs, &nb); err != nil {
			return "unmarshal error: " + err.Error()
		}
		bs2, _ := json.Marshal(&nb)
		if string(bs) != string(bs2) {
			return "json not stable: " + string(bs) + " vs " + string(bs2)
		}
		if strings.Contains(string(bs), "\"elements\":null") && o.b.Size() > 0 {
			return "elements dropped"
		}
		o.b = nb
		return "ok"
	case "restore":
		els := replay.Ints(a["arg"])
		return refusal(func() { o.b.Restore(els) })
	}
	return "unknown op"
}

func init() {
	reg.Register("buffer", replay.Driver(func(cfg map[string]any, init any) (replay.Object, error) {
		return &bufObj{b: queueing.NewBuffer[int]("B", replay.Num(replay.Field(init, "cap")))}, nil
	}))
}
