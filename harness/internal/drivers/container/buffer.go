package container

import (
	"encoding/json"
	"fmt"
	"strings"

	"github.com/sarchlab/akita/v5/queueing"

	"verif/harness/internal/reg"
	"verif/harness/internal/replay"
)

// C14: queueing.Buffer[int] stepped through Buffer.tla behaviours.
type bufObj struct {
	b queueing.Buffer[int]
}

func (o *bufObj) Project() any {
	if o.b.Name() != "B" {
		return map[string]any{"cap": o.b.Capacity(), "q": o.b.Elements(), "name": o.b.Name()}
	}
	return map[string]any{"cap": o.b.Capacity(), "q": o.b.Elements()}
}

func refusal(f func()) (res any) {
	defer func() {
		if r := recover(); r != nil {
			res = "refused"
		}
	}()
	f()
	return "ok"
}

func (o *bufObj) Apply(a map[string]any) any {
	switch replay.Str(a["op"]) {
	case "canpush":
		return o.b.CanPush()
	case "size":
		return o.b.Size()
	case "capacity":
		return o.b.Capacity()
	case "peek":
		return o.b.Peek()
	case "elements":
		return o.b.Elements()
	case "push":
		v := replay.Num(a["arg"])
		can := o.b.CanPush()
		r := refusal(func() { o.b.PushTyped(v) })
		if (r == "ok") != can {
			return "CanPush=" + map[bool]string{true: "true", false: "false"}[can] + " but push " + r.(string)
		}
		return r
	case "pop":
		return o.b.Pop()
	case "updatefront":
		o.b.UpdateFront(replay.Num(a["arg"]))
		return "ok"
	case "clear":
		o.b.Clear()
		return "ok"
	case "snaprestore":
		els := o.b.Elements()
		nb := queueing.NewBuffer[int](o.b.Name(), o.b.Capacity())
		nb.Restore(els)
		// mutating the snapshot must not affect either buffer
		for i := range els {
			els[i] = -7
		}
		o.b = nb
		return "ok"
	case "jsonrt":
		bs, err := json.Marshal(o.b)
		if err != nil {
			return "marshal error: " + err.Error()
		}
		var nb queueing.Buffer[int]
		if err := json.Unmarshal(bs, &nb); err != nil {
			return "unmarshal error: " + err.Error()
		}
		bs2, _ := json.Marshal(&nb)
		if string(bs) != string(bs2) {
			return "json not stable: " + string(bs) + " vs " + string(bs2)
		}
		if strings.Contains(string(bs), "\"elements\":null") && o.b.Size() > 0 {
			return "elements dropped"
		}
		o.b = nb
		return "ok"
	case "jsonintoused":
		bs, err := json.Marshal(o.b)
		if err != nil {
			return "marshal error: " + err.Error()
		}
		nb := queueing.NewBuffer[int]("Other", o.b.Capacity()+2)
		for i := 0; i < o.b.Capacity()+2; i++ {
			nb.PushTyped(90 + i)
		}
		if err := json.Unmarshal(bs, &nb); err != nil {
			return "unmarshal error: " + err.Error()
		}
		o.b = nb
		return "ok"
	case "restore":
		els := replay.Ints(a["arg"])
		return refusal(func() { o.b.Restore(els) })
	}
	return "unknown op"
}

// recObj is the same buffer with a struct element type whose JSON omits zero fields: the
// specification's value v stands for the element {A: v} (odd v) or {B: "s<v>"} (even v).
type rec struct {
	A     int    `json:"a,omitempty"`
	B     string `json:"b,omitempty"`
	Dirty bool   `json:"dirty,omitempty"`
}

func recOf(v int) rec {
	if v == 0 {
		return rec{}
	}
	if v%2 == 1 {
		return rec{A: v}
	}
	return rec{B: fmt.Sprintf("s%d", v)}
}

func valOf(r rec) any {
	for v := 0; v < 10; v++ {
		if recOf(v) == r {
			return v
		}
	}
	return fmt.Sprintf("foreign element %+v", r)
}

type recObj struct{ b queueing.Buffer[rec] }

func (o *recObj) vals() []any {
	out := []any{}
	for _, r := range o.b.Elements() {
		out = append(out, valOf(r))
	}
	return out
}

func (o *recObj) Project() any { return map[string]any{"cap": o.b.Capacity(), "q": o.vals()} }

func (o *recObj) Apply(a map[string]any) any {
	switch replay.Str(a["op"]) {
	case "canpush":
		return o.b.CanPush()
	case "size":
		return o.b.Size()
	case "capacity":
		return o.b.Capacity()
	case "peek":
		return valOf(o.b.Peek())
	case "elements":
		return o.vals()
	case "push":
		return refusal(func() { o.b.PushTyped(recOf(replay.Num(a["arg"]))) })
	case "pop":
		return valOf(o.b.Pop())
	case "updatefront":
		o.b.UpdateFront(recOf(replay.Num(a["arg"])))
		return "ok"
	case "clear":
		o.b.Clear()
		return "ok"
	case "snaprestore":
		els := o.b.Elements()
		nb := queueing.NewBuffer[rec](o.b.Name(), o.b.Capacity())
		nb.Restore(els)
		for i := range els {
			els[i] = rec{A: -7, Dirty: true}
		}
		o.b = nb
		return "ok"
	case "jsonrt", "jsonintoused":
		bs, err := json.Marshal(o.b)
		if err != nil {
			return "marshal error: " + err.Error()
		}
		var nb queueing.Buffer[rec]
		if replay.Str(a["op"]) == "jsonintoused" {
			// a live buffer whose elements have every field set
			nb = queueing.NewBuffer[rec]("Other", o.b.Capacity()+2)
			for i := 0; i < o.b.Capacity()+2; i++ {
				nb.PushTyped(rec{A: 70 + i, B: "old", Dirty: true})
			}
		}
		if err := json.Unmarshal(bs, &nb); err != nil {
			return "unmarshal error: " + err.Error()
		}
		o.b = nb
		return "ok"
	case "restore":
		var els []rec
		for _, v := range replay.Ints(a["arg"]) {
			els = append(els, recOf(v))
		}
		return refusal(func() { o.b.Restore(els) })
	}
	return "unknown op"
}

func init() {
	reg.Register("buffer_struct", replay.Driver(func(cfg map[string]any, init any) (replay.Object, error) {
		return &recObj{b: queueing.NewBuffer[rec]("B", replay.Num(replay.Field(init, "cap")))}, nil
	}))
	reg.Register("buffer", replay.Driver(func(cfg map[string]any, init any) (replay.Object, error) {
		return &bufObj{b: queueing.NewBuffer[int]("B", replay.Num(replay.Field(init, "cap")))}, nil
	}))
}
