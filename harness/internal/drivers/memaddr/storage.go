// Package memaddr holds the drivers of the memory address family: the real
// mem.Storage stepped through Storage.tla behaviours (C20) and the real
// interleaving converters, port mapper and bank selection compared with the
// Interleave.tla tables (C24).
package memaddr

import (
	"bytes"
	"crypto/sha256"
	"encoding/hex"
	"encoding/json"
	"fmt"
	"strconv"

	"github.com/sarchlab/akita/v5/mem"

	"verif/harness/internal/reg"
	"verif/harness/internal/replay"
)

// storObj is a real mem.Storage under replay of a W-bit Storage.tla history.
//
// The W-bit word of the specification is embedded into the 64-bit address
// space of the real storage: the lower half is kept (times the scale factor),
// the upper half is moved to the top of the 64-bit space, so an access that
// runs over 2^W in the specification runs over 2^64 on the real storage:
//
//	a <  2^(W-1):  a * F
//	a >= 2^(W-1):  2^64 - (2^W - a) * F
//
// With scale factor F every specification byte stands for F equal real bytes
// (lengths, capacity and unit size are multiplied by F), which turns the small
// shapes of the specification into realistic ones (F = 1024: unit 4 -> 4096).
type storObj struct {
	s    *mem.Storage
	log  []logged // the writes the storage accepted, in order
	cap  uint64 // real capacity
	unit uint64 // real unit size
	f    uint64
	w    uint
}

type logged struct {
	at   uint64
	data []byte
}

func (o *storObj) addr(a int) uint64 {
	top := 1 << o.w
	if a < top/2 {
		return uint64(a) * o.f
	}
	return -(uint64(top-a) * o.f) // 2^64 - (top-a)*F
}

// compress maps F-blocks of equal bytes back to one specification byte; a
// block that is not uniform becomes -1-(index of the first differing byte).
func compress(b []byte, f uint64) []int {
	if uint64(len(b))%f != 0 {
		return []int{-1000000 - len(b)}
	}
	out := make([]int, 0, uint64(len(b))/f)
	for i := uint64(0); i < uint64(len(b)); i += f {
		v := int(b[i])
		for j := uint64(1); j < f; j++ {
			if b[i+j] != b[i] {
				v = -1 - int(i+j)
				break
			}
		}
		out = append(out, v)
	}
	return out
}

func expand(d []int, f uint64) []byte {
	out := make([]byte, 0, uint64(len(d))*f)
	for _, v := range d {
		for j := uint64(0); j < f; j++ {
			out = append(out, byte(v))
		}
	}
	return out
}

func (o *storObj) Project() any {
	st := map[string]any{"cap": o.s.Capacity() / o.f, "unit": o.unit / o.f}
	data, err := o.s.Read(0, o.cap)
	if err != nil {
		st["mem"] = "read of the whole capacity failed: " + err.Error()
		return st
	}
	st["mem"] = compress(data, o.f)
	return st
}

func result(err error, data []int) map[string]any {
	return map[string]any{"err": err != nil, "data": data}
}

func (o *storObj) Apply(a map[string]any) any {
	at := o.addr(replay.Num(a["addr"]))
	n := uint64(replay.Num(a["len"])) * o.f
	switch replay.Str(a["op"]) {
	case "read":
		data, err := o.s.Read(at, n)
		if err != nil {
			return result(err, nil)
		}
		got := compress(data, o.f)
		// the returned slice belongs to the caller: scribbling on it must not
		// reach the storage (checked by the projection after this step)
		for i := range data {
			data[i] ^= 0xA5
		}
		if uint64(len(data)) != n {
			return map[string]any{"err": false, "data": got, "note": "wrong length"}
		}
		return result(nil, got)
	case "write":
		buf := expand(replay.Ints(a["data"]), o.f)
		err := o.s.Write(at, buf)
		if err == nil {
			o.log = append(o.log, logged{at, append([]byte(nil), buf...)})
		}
		// so does the written slice: the storage must have copied it
		for i := range buf {
			buf[i] = 0xEE
		}
		return result(err, nil)
	case "ckpt":
		// The projection reads the whole capacity after every step, which
		// allocates every unit of o.s. The checkpoint is therefore taken from a
		// storage that only saw the accepted writes (untouched units stay
		// unallocated, as in a real run).
		sparse := mem.NewStorageWithUnitSize(o.cap, o.unit)
		for _, w := range o.log {
			if err := sparse.Write(w.at, append([]byte(nil), w.data...)); err != nil {
				return map[string]any{"err": true, "data": nil, "note": "accepted write refused on replay: " + err.Error()}
			}
		}
		var buf bytes.Buffer
		if err := sparse.SaveCheckpoint(&buf); err != nil {
			return map[string]any{"err": true, "data": nil, "note": "save: " + err.Error()}
		}
		// load into a storage of the same shape that already holds other
		// bytes: loading must reproduce the saved contents exactly
		fresh := mem.NewStorageWithUnitSize(o.cap, o.unit)
		if o.cap > 0 {
			junk := bytes.Repeat([]byte{0xDD}, int(o.cap))
			if err := fresh.Write(0, junk); err != nil {
				return map[string]any{"err": true, "data": nil, "note": "in-range write failed: " + err.Error()}
			}
		}
		if err := fresh.LoadCheckpoint(bytes.NewReader(buf.Bytes())); err != nil {
			return map[string]any{"err": true, "data": nil, "note": "load: " + err.Error()}
		}
		o.s = fresh
		return result(nil, nil)
	}
	return "unknown op"
}

func parseU64(v any) (uint64, error) {
	switch t := v.(type) {
	case string:
		return strconv.ParseUint(t, 10, 64)
	case float64:
		return uint64(t), nil
	}
	return 0, fmt.Errorf("not a number: %v", v)
}

func readInts(b []byte) []int {
	out := make([]int, len(b))
	for i := range b {
		out[i] = int(b[i])
	}
	return out
}

// ---- 64-bit boundary representatives -------------------------------------

type bigWrite struct {
	Addr string `json:"addr"`
	Data []int  `json:"data"`
}

type bigCase struct {
	Cap    string     `json:"cap"`
	Unit   string     `json:"unit"`
	Pre    []bigWrite `json:"pre"`
	Op     string     `json:"op"`
	Addr   string     `json:"addr"`
	Len    uint64     `json:"len"`
	Salt   int        `json:"salt"` // a write stores the bytes ((i*7+salt)%250)+1, i = 0..len-1
	Probes [][2]any   `json:"probes"`
}

type bigOut struct {
	PreErr    []string `json:"pre_err"`
	Err       bool     `json:"err"`
	ErrText   string   `json:"err_text"`
	Data      []int    `json:"data"`     // the bytes a successful read returned (at most 64 of them)
	DataLen   int      `json:"data_len"` // their number
	DataSha   string   `json:"data_sha"` // sha256 of all of them
	Before    [][]int  `json:"before"`
	After     [][]int  `json:"after"`
	AfterCkpt [][]int  `json:"after_ckpt"`
	CkptErr   string   `json:"ckpt_err"`
	Panic     string   `json:"panic"`
}

func probe(s *mem.Storage, probes [][2]any) [][]int {
	out := make([][]int, 0, len(probes))
	for _, p := range probes {
		a, _ := parseU64(p[0])
		n, _ := parseU64(p[1])
		d, err := s.Read(a, n)
		if err != nil {
			out = append(out, []int{-1})
			continue
		}
		out = append(out, readInts(d))
	}
	return out
}

func runBig(c bigCase) (o bigOut) {
	defer func() {
		if r := recover(); r != nil {
			o.Panic = fmt.Sprint(r)
		}
	}()
	capacity, _ := strconv.ParseUint(c.Cap, 10, 64)
	unit, _ := strconv.ParseUint(c.Unit, 10, 64)
	s := mem.NewStorageWithUnitSize(capacity, unit)
	for _, w := range c.Pre {
		a, _ := strconv.ParseUint(w.Addr, 10, 64)
		if err := s.Write(a, expand(w.Data, 1)); err != nil {
			o.PreErr = append(o.PreErr, err.Error())
		}
	}
	o.Before = probe(s, c.Probes)
	at, _ := strconv.ParseUint(c.Addr, 10, 64)
	switch c.Op {
	case "read":
		d, err := s.Read(at, c.Len)
		if err != nil {
			o.Err, o.ErrText = true, err.Error()
		} else {
			o.DataLen = len(d)
			sum := sha256.Sum256(d)
			o.DataSha = hex.EncodeToString(sum[:])
			if len(d) > 64 {
				d = d[:64]
			}
			o.Data = readInts(d)
		}
	case "write":
		data := make([]byte, c.Len)
		for i := range data {
			data[i] = byte((i*7+c.Salt)%250 + 1)
		}
		if err := s.Write(at, data); err != nil {
			o.Err, o.ErrText = true, err.Error()
		}
	}
	o.After = probe(s, c.Probes)
	var buf bytes.Buffer
	if err := s.SaveCheckpoint(&buf); err != nil {
		o.CkptErr = "save: " + err.Error()
		return o
	}
	fresh := mem.NewStorageWithUnitSize(capacity, unit)
	if err := fresh.LoadCheckpoint(bytes.NewReader(buf.Bytes())); err != nil {
		o.CkptErr = "load: " + err.Error()
		return o
	}
	o.AfterCkpt = probe(fresh, c.Probes)
	return o
}

func init() {
	factory := replay.Factory(func(cfg map[string]any, init any) (replay.Object, error) {
		f := uint64(replay.Num(cfg["scale"]))
		if f == 0 {
			f = 1
		}
		w := uint(replay.Num(cfg["w"]))
		if w < 2 || w > 30 {
			return nil, fmt.Errorf("bad word width %d", w)
		}
		o := &storObj{f: f, w: w,
			cap:  uint64(replay.Num(replay.Field(init, "cap"))) * f,
			unit: uint64(replay.Num(replay.Field(init, "unit"))) * f}
		o.s = mem.NewStorageWithUnitSize(o.cap, o.unit)
		return o, nil
	})
	// Like replay.Driver, but without the cap on the number of reported
	// mismatches: histories behind the cap would stay unexplored, and the
	// unchanged tree is known to contradict the statement in many cases.
	reg.Register("storage", func(raw json.RawMessage) (any, error) {
		var in replay.Input
		if err := json.Unmarshal(raw, &in); err != nil {
			return nil, err
		}
		return replay.Run(factory, in, 1<<30), nil
	})
	reg.Register("storage64", func(raw json.RawMessage) (any, error) {
		var in struct {
			Cases []bigCase `json:"cases"`
		}
		if err := json.Unmarshal(raw, &in); err != nil {
			return nil, err
		}
		outs := make([]bigOut, len(in.Cases))
		for i, c := range in.Cases {
			outs[i] = runBig(c)
		}
		return map[string]any{"results": outs}, nil
	})
}
