package memaddr

import (
	"encoding/json"
	"fmt"
	"io"
	"log"
	"strconv"

	"github.com/sarchlab/akita/v5/mem"
	"github.com/sarchlab/akita/v5/mem/memprotocol"
	"github.com/sarchlab/akita/v5/mem/simplebankedmemory"
	"github.com/sarchlab/akita/v5/messaging"
	"github.com/sarchlab/akita/v5/modeling"
	"github.com/sarchlab/akita/v5/timing"

	"verif/harness/internal/reg"
)

// C24: every row (address, owner, internal) of an Interleave.tla table is put
// to the real code, for every element index:
//
//	converter     mem.InterleavingConverter.ConvertExternalToInternal
//	convertaddr   mem.ConvertAddress("interleaving", ...)
//	mapper        mem.InterleavedAddressPortMapper.Find (LowAddress = offset)
//	bank          the bank a real simplebankedmemory component dispatches a
//	              read request to when its bank-selection conversion is
//	              configured with the same interleaving
//
// The element that owns the address must get the table's internal address, all
// other elements must refuse the address (panic is the documented refusal).
//
// Scaling: with factor F every address cell of the table stands for F
// addresses: size' = size*F, off' = base + off*F, a' = off' + (a-off)*F + e
// with e in 0..F-1, and the rank of a' is internal*F + e (F addresses for each
// smaller owned cell, plus e).  The owner is unchanged.

type ilCase struct {
	Size int     `json:"size"`
	N    int     `json:"n"`
	Off  int     `json:"off"`
	Rows [][]int `json:"rows"`
}

type ilScale struct {
	F    uint64 `json:"f"`
	Base string `json:"base"` // decimal; rounded down by the driver to a multiple of size'*n unless raw
	Eps  []int  `json:"eps"`  // which of the F addresses of a cell are tried (negative: from the end)
	Raw  bool   `json:"raw"`  // keep the base as it is (the specification is invariant under translation)
}

type ilBank struct {
	Enabled bool `json:"enabled"`
}

type ilMismatch struct {
	Target string `json:"target"`
	Kind   string `json:"kind"`
	Size   string `json:"size"`
	N      int    `json:"n"`
	Off    string `json:"off"`
	Idx    int    `json:"idx"`
	Addr   string `json:"addr"`
	Want   string `json:"want"`
	Got    string `json:"got"`
	F      uint64 `json:"f"`
	Count  int    `json:"count"`
	// the table (size, off) and row the case came from
	CaseSize int   `json:"case_size"`
	CaseOff  int   `json:"case_off"`
	Row      []int `json:"row"`
}

const refused = "refused"

func u(v uint64) string { return strconv.FormatUint(v, 10) }

// call runs f and turns a panic into the refusal marker.
func call(f func() uint64) (res string) {
	defer func() {
		if r := recover(); r != nil {
			res = refused
		}
	}()
	return u(f())
}

// bankProbe owns one real simplebankedmemory component.
type bankProbe struct {
	comp *simplebankedmemory.Comp
	top  messaging.Port
	nb   int
}

func newBankProbe(size, off uint64, n, idx, nb int, log2 uint64, seq int) *bankProbe {
	engine := timing.NewSerialEngine()
	r := modeling.NewStandaloneRegistrar(engine)
	spec := simplebankedmemory.DefaultSpec()
	spec.NumBanks = nb
	spec.BankPipelineDepth = 0
	spec.PostPipelineBufSize = 4
	spec.Capacity = 1 << 20
	spec.BankSelectorLog2InterleaveSize = log2
	spec.BankAddrConvKind = "interleaving"
	spec.BankAddrInterleavingSize = size
	spec.BankAddrTotalNumOfElements = n
	spec.BankAddrCurrentElementIndex = idx
	spec.BankAddrOffset = off
	name := fmt.Sprintf("Mem%d", seq)
	comp := simplebankedmemory.MakeBuilder().WithRegistrar(r).WithSpec(spec).Build(name)
	for _, pn := range []string{"Top", "Control"} {
		p := modeling.MakePortBuilder().WithRegistrar(r).WithComponent(comp).
			WithSpec(modeling.PortSpec{BufSize: 4}).Build(pn)
		comp.AssignPort(pn, p)
	}
	return &bankProbe{comp: comp, top: comp.GetPortByName("Top"), nb: nb}
}

// bank delivers one read request and reports which bank received it.
func (b *bankProbe) bank(addr uint64) (res string) {
	defer func() {
		if r := recover(); r != nil {
			res = refused
			// the refused request is still at the head of the port
			for b.top.RetrieveIncoming() != nil {
			}
		}
	}()
	req := memprotocol.ReadReq{}
	req.ID = timing.GetIDGenerator().Generate()
	req.Src = messaging.RemotePort("Agent.Port")
	req.Dst = b.top.AsRemote()
	req.Address = addr
	req.AccessByteSize = 1
	b.top.Deliver(req)
	// dispatch only: one pass of the middleware pipeline moves the request
	// from the port into the selected bank (pipeline depth 0: straight into
	// the bank's post-pipeline buffer, finalized on the *next* tick).
	b.comp.Tick()
	found := -1
	for i := range b.comp.State.Banks {
		k := b.comp.State.Banks[i].PostPipelineBuf.Size() + len(b.comp.State.Banks[i].Pipeline.Stages())
		if k > 0 {
			if found >= 0 || k > 1 {
				found = -2
			} else {
				found = i
			}
		}
		b.comp.State.Banks[i].PostPipelineBuf.Clear()
	}
	if found == -1 {
		return "not dispatched"
	}
	if found == -2 {
		return "dispatched to several banks"
	}
	return strconv.Itoa(found)
}

func runInterleave(raw json.RawMessage) (any, error) {
	var in struct {
		Cases  []ilCase  `json:"cases"`
		Scales []ilScale `json:"scales"`
		Bank   ilBank    `json:"bank"`
	}
	if err := json.Unmarshal(raw, &in); err != nil {
		return nil, err
	}
	log.SetOutput(io.Discard) // log.Panic prints before panicking

	agg := map[string]*ilMismatch{}
	var order []string
	evals := map[string]int{}
	seq := 0
	for _, c := range in.Cases {
		for _, sc := range in.Scales {
			f := sc.F
			size := uint64(c.Size) * f
			base, _ := strconv.ParseUint(sc.Base, 10, 64)
			round := size * uint64(c.N)
			if !sc.Raw {
				base -= base % round
			}
			off := base + uint64(c.Off)*f
			rec := func(target, kind string, idx int, addr uint64, want, got string, row []int) {
				k := fmt.Sprintf("%s|%s|%d|%d|%d|%d|%d", target, kind, c.Size, c.N, c.Off, f, base)
				m, ok := agg[k]
				if !ok {
					m = &ilMismatch{Target: target, Kind: kind, Size: u(size), N: c.N, Off: u(off), Idx: idx,
						Addr: u(addr), Want: want, Got: got, F: f, Row: row, CaseSize: c.Size, CaseOff: c.Off}
					agg[k] = m
					order = append(order, k)
				}
				m.Count++
			}
			mapper := &mem.InterleavedAddressPortMapper{
				UseAddressSpaceLimitation: true,
				LowAddress:                off,
				HighAddress:               off + uint64(len(c.Rows))*f + f,
				InterleavingSize:          size,
				ModuleForOtherAddresses:   messaging.RemotePort("other"),
			}
			for i := 0; i < c.N; i++ {
				mapper.LowModules = append(mapper.LowModules, messaging.RemotePort(strconv.Itoa(i)))
			}
			// bank selection geometry, derived from the case numbers
			nb := 2 + (c.Size+c.N+c.Off)%3
			log2 := uint64((c.Size + c.Off) % 2)
			for ff := f; ff > 1; ff >>= 1 {
				log2++
			}
			var probes []*bankProbe
			if in.Bank.Enabled {
				for idx := 0; idx < c.N; idx++ {
					seq++
					probes = append(probes, newBankProbe(size, off, c.N, idx, nb, log2, seq))
				}
			}
			for _, row := range c.Rows {
				for _, e := range sc.Eps {
					eps := uint64(e)
					if e < 0 {
						eps = f - uint64(-e)
					}
					if eps >= f {
						continue
					}
					addr := off + uint64(row[0]-c.Off)*f + eps
					owner := row[1]
					internal := uint64(row[2])*f + eps

					evals["mapper"]++
					if c.Off != 0 {
						evals["nonzero_offset_addresses"]++
					}
					if got := string(mapper.Find(addr)); got != strconv.Itoa(owner) {
						rec("mapper", "wrong_owner", owner, addr, strconv.Itoa(owner), got, row)
					}
					for idx := 0; idx < c.N; idx++ {
						want := refused
						if idx == owner {
							want = u(internal)
						}
						kind := func(got string) string {
							switch {
							case want == refused:
								return "accepted_foreign"
							case got == refused:
								return "rejected_owned"
							}
							return "wrong_internal"
						}
						conv := mem.InterleavingConverter{InterleavingSize: size, TotalNumOfElements: c.N,
							CurrentElementIndex: idx, Offset: off}
						evals["converter"]++
						if got := call(func() uint64 { return conv.ConvertExternalToInternal(addr) }); got != want {
							rec("converter", kind(got), idx, addr, want, got, row)
						}
						evals["convertaddr"]++
						if got := call(func() uint64 {
							return mem.ConvertAddress("interleaving", off, size, c.N, idx, addr)
						}); got != want {
							rec("convertaddr", kind(got), idx, addr, want, got, row)
						}
						if in.Bank.Enabled {
							evals["bank"]++
							wantBank := refused
							if idx == owner {
								wantBank = strconv.Itoa(int((internal >> log2) % uint64(nb)))
							}
							if got := probes[idx].bank(addr); got != wantBank {
								k := "wrong_bank"
								if wantBank == refused {
									k = "accepted_foreign"
								} else if got == refused {
									k = "rejected_owned"
								}
								rec("bank", k, idx, addr, wantBank+fmt.Sprintf(" (of %d banks, stride 2^%d)", nb, log2), got, row)
							}
						}
					}
				}
			}
		}
	}
	out := make([]*ilMismatch, 0, len(order))
	for _, k := range order {
		out = append(out, agg[k])
	}
	return map[string]any{"mismatches": out, "evals": evals}, nil
}

func init() {
	reg.Register("interleave", runInterleave)
}
