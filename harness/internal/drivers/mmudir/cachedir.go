package mmudir

import (
	"bufio"
	"encoding/json"
	"fmt"
	"math/rand"
	"os"

	"github.com/sarchlab/akita/v5/hooking"
	"github.com/sarchlab/akita/v5/mem"
	"github.com/sarchlab/akita/v5/mem/cache"
	"github.com/sarchlab/akita/v5/mem/cache/writeback"
	"github.com/sarchlab/akita/v5/mem/cache/writethroughcache"
	"github.com/sarchlab/akita/v5/mem/idealmemcontroller"
	"github.com/sarchlab/akita/v5/mem/memcontrolprotocol"
	"github.com/sarchlab/akita/v5/mem/memprotocol"
	"github.com/sarchlab/akita/v5/mem/vm"
	"github.com/sarchlab/akita/v5/messaging"
	"github.com/sarchlab/akita/v5/modeling"
	"github.com/sarchlab/akita/v5/noc/directconnection"
	"github.com/sarchlab/akita/v5/timing"
	"github.com/sarchlab/akita/v5/tracing"

	"verif/harness/internal/reg"
)

// C19 (B2): a real write-back or write-through cache over an ideal memory
// controller runs a seeded read/write (and control) workload on few sets. The
// directory is projected from the component state at every hook invocation of
// the cache (tracing calls inside the pipeline stages: sub-tick granularity) and
// after every engine event; every change is appended to an ndjson trace that
// DirectoryTrace.tla validates. The same predicates are evaluated here as a
// second opinion.

type cdCtl struct {
	At   int    `json:"at"`   // issued when this many data requests have been sent
	Cmd  string `json:"cmd"`  // pause drain enable reset invalidate flush
	Wait bool   `json:"wait"` // first wait until no data request is outstanding
}

type cdCase struct {
	ID      int     `json:"id"`
	Kind    string  `json:"kind"`   // writeback | writethrough
	Policy  string  `json:"policy"` // write-around | write-evict | write-through (writethrough only)
	Sets    int     `json:"sets"`
	Ways    int     `json:"ways"`
	Lines   int     `json:"lines"` // the workload touches line addresses 0..Lines-1 (x64)
	PIDs    []int   `json:"pids"`
	Ops     int     `json:"ops"`
	Seed    int64   `json:"seed"`
	Window  int     `json:"window"`
	MSHR    int     `json:"mshr"`
	BankLat int     `json:"bank_lat"`
	DirLat  int     `json:"dir_lat"`
	PerCyc  int     `json:"per_cycle"`
	Banks   int     `json:"banks"`
	MemLat  int     `json:"mem_lat"`
	PortBuf int     `json:"port_buf"`
	WriteP  float64 `json:"write_p"`
	Ctl     []cdCtl `json:"ctl"`
	Trace   string  `json:"trace"` // ndjson output path
}

type cdViolation struct {
	Index int    `json:"index"` // 1-based trace record
	Inv   string `json:"inv"`
	Why   string `json:"why"`
}

type cdResult struct {
	ID         int           `json:"id"`
	Records    int           `json:"records"`
	Snapshots  int           `json:"snapshots"`
	Events     int           `json:"events"`
	Sent       int           `json:"sent"`
	Answered   int           `json:"answered"`
	CtlAcks    []string      `json:"ctl_acks"`
	Kicks      int           `json:"kicks"`
	Fills      int           `json:"fills"`      // steps in which a way took another line
	Evictions  int           `json:"evictions"`  // of which the way held a valid line before
	BusySeen   int           `json:"busy_seen"`  // records with at least one locked/read block
	MaxReaders int           `json:"max_readers"`
	Violations []cdViolation `json:"violations"`
	Err        string        `json:"err,omitempty"`
}

type cdOp struct {
	write bool
	pid   int
	addr  uint64
	size  int
	mask  bool
}

type cdRequester struct {
	*modeling.Component[struct{}, struct{}, modeling.None]
	port, ctl   messaging.Port
	cacheTop    messaging.RemotePort
	cacheCtl    messaging.RemotePort
	c           *cdCase
	ops         []cdOp
	sent        int
	answered    int
	outstanding int
	ctlNext     int
	ctlPending  bool
	acks        []string
	rng         *rand.Rand
}

type cdReqMW struct{ r *cdRequester }

var cdCmds = map[string]memcontrolprotocol.Command{
	"pause": memcontrolprotocol.CmdPause, "drain": memcontrolprotocol.CmdDrain, "enable": memcontrolprotocol.CmdEnable,
	"reset": memcontrolprotocol.CmdReset, "invalidate": memcontrolprotocol.CmdInvalidate, "flush": memcontrolprotocol.CmdFlush,
}

func (m *cdReqMW) Tick() bool {
	r := m.r
	progress := false
	for {
		msg := r.port.RetrieveIncoming()
		if msg == nil {
			break
		}
		progress = true
		r.answered++
		if r.outstanding > 0 {
			r.outstanding--
		}
	}
	for {
		msg := r.ctl.RetrieveIncoming()
		if msg == nil {
			break
		}
		progress = true
		if rsp, ok := msg.(memcontrolprotocol.Rsp); ok {
			r.acks = append(r.acks, fmt.Sprintf("%d:%v:%s", int(rsp.Command), rsp.Success, rsp.Error))
			if rsp.Command == memcontrolprotocol.CmdReset && rsp.Success {
				r.outstanding = 0 // a reset drops whatever was in flight
			}
		}
		r.ctlPending = false
	}
	for {
		if r.ctlPending {
			break
		}
		if r.ctlNext < len(r.c.Ctl) && r.c.Ctl[r.ctlNext].At <= r.sent {
			ct := r.c.Ctl[r.ctlNext]
			if ct.Wait && r.outstanding > 0 {
				break
			}
			if !r.ctl.CanSend() {
				break
			}
			req := memcontrolprotocol.Req{Command: cdCmds[ct.Cmd]}
			req.ID = timing.GetIDGenerator().Generate()
			req.Src = r.ctl.AsRemote()
			req.Dst = r.cacheCtl
			req.TrafficClass = "memcontrolprotocol.Req"
			r.ctl.Send(req)
			r.ctlPending = true
			r.ctlNext++
			progress = true
			continue
		}
		if r.sent >= len(r.ops) || r.outstanding >= r.c.Window || !r.port.CanSend() {
			break
		}
		op := r.ops[r.sent]
		if op.write {
			req := memprotocol.WriteReq{Address: op.addr, PID: vm.PID(op.pid), Data: make([]byte, op.size)}
			for i := range req.Data {
				req.Data[i] = byte(r.rng.Intn(256))
			}
			if op.mask {
				req.DirtyMask = make([]bool, op.size)
				for i := range req.DirtyMask {
					req.DirtyMask[i] = r.rng.Intn(2) == 0
				}
			}
			req.ID = timing.GetIDGenerator().Generate()
			req.Src = r.port.AsRemote()
			req.Dst = r.cacheTop
			req.TrafficBytes = op.size + 12
			req.TrafficClass = "memprotocol.WriteReq"
			r.port.Send(req)
		} else {
			req := memprotocol.ReadReq{Address: op.addr, PID: vm.PID(op.pid), AccessByteSize: uint64(op.size)}
			req.ID = timing.GetIDGenerator().Generate()
			req.Src = r.port.AsRemote()
			req.Dst = r.cacheTop
			req.TrafficBytes = 12
			req.TrafficClass = "memprotocol.ReadReq"
			r.port.Send(req)
		}
		r.sent++
		r.outstanding++
		progress = true
	}
	return progress
}

func cdOps(c *cdCase, rng *rand.Rand) []cdOp {
	ops := make([]cdOp, c.Ops)
	for i := range ops {
		line := uint64(rng.Intn(c.Lines))
		o := cdOp{pid: c.PIDs[rng.Intn(len(c.PIDs))], write: rng.Float64() < c.WriteP}
		switch rng.Intn(4) {
		case 0: // whole line
			o.addr, o.size = line*64, 64
		case 1: // a word
			o.addr, o.size = line*64+uint64(rng.Intn(16))*4, 4
		case 2: // half a line
			o.addr, o.size = line*64+uint64(rng.Intn(2))*32, 32
		default:
			o.addr, o.size = line*64+uint64(rng.Intn(8))*8, 8
		}
		if o.write && rng.Intn(4) == 0 {
			o.mask = true
		}
		ops[i] = o
	}
	return ops
}

// ---------------------------------------------------------------- Go-side predicates

type projBlock struct {
	valid, locked bool
	rc, pid       int
	line, home    int
}

func dirBlocks(ds *cache.DirectoryState, numSets int) [][]projBlock {
	out := make([][]projBlock, len(ds.Sets))
	for s, set := range ds.Sets {
		for _, b := range set.Blocks {
			pb := projBlock{valid: b.IsValid, locked: b.IsLocked, rc: b.ReadCount}
			if b.IsValid {
				pb.pid, pb.line = int(b.PID), int(b.Tag/64)+1
				pb.home = cache.DirectorySetID(b.Tag, 64, numSets) + 1
			}
			out[s] = append(out[s], pb)
		}
	}
	return out
}

func checkDir(ds *cache.DirectoryState, numSets int, prev [][]projBlock) (cur [][]projBlock, inv, why string) {
	cur = dirBlocks(ds, numSets)
	for s, set := range ds.Sets {
		seen := map[int]int{}
		for _, w := range set.LRUOrder {
			seen[w]++
		}
		if len(set.LRUOrder) != len(set.Blocks) {
			return cur, "OrderWellFormed", fmt.Sprintf("set %d lists %d ways, has %d", s+1, len(set.LRUOrder), len(set.Blocks))
		}
		for w := range set.Blocks {
			if seen[w] != 1 {
				return cur, "OrderWellFormed", fmt.Sprintf("set %d lists way %d %d times: %v", s+1, w+1, seen[w], set.LRUOrder)
			}
		}
	}
	type key struct{ pid, line int }
	where := map[key][2]int{}
	for s := range cur {
		for w, b := range cur[s] {
			if b.rc < 0 {
				return cur, "ReadersNonNegative", fmt.Sprintf("set %d way %d has %d readers", s+1, w+1, b.rc)
			}
			if !b.valid {
				continue
			}
			if b.home != s+1 {
				return cur, "RightSet", fmt.Sprintf("line %d of pid %d sits in set %d, maps to set %d", b.line, b.pid, s+1, b.home)
			}
			if o, dup := where[key{b.pid, b.line}]; dup {
				return cur, "NoDupValid", fmt.Sprintf("line %d of pid %d is valid in set %d way %d and set %d way %d", b.line, b.pid, o[0], o[1], s+1, w+1)
			}
			where[key{b.pid, b.line}] = [2]int{s + 1, w + 1}
		}
	}
	if prev != nil {
		for s := range cur {
			for w, b2 := range cur[s] {
				b := prev[s][w]
				replaced := b2.valid && (!b.valid || b.pid != b2.pid || b.line != b2.line)
				if replaced && (b.locked || b.rc > 0) {
					return cur, "NeverReplaceBusy", fmt.Sprintf("set %d way %d took line %d of pid %d while locked=%v readers=%d (held line %d of pid %d)",
						s+1, w+1, b2.line, b2.pid, b.locked, b.rc, b.line, b.pid)
				}
			}
		}
	}
	return cur, "", ""
}

type hookFn func(ctx hooking.HookCtx)

func (h hookFn) Func(ctx hooking.HookCtx) { h(ctx) }

// ---------------------------------------------------------------- one case

func runCDCase(c *cdCase) (res cdResult) {
	res.ID = c.ID
	defer func() {
		if p := recover(); p != nil {
			res.Err = "panic: " + fmt.Sprint(p)
		}
	}()
	def := func(v *int, d int) {
		if *v <= 0 {
			*v = d
		}
	}
	def(&c.Sets, 2)
	def(&c.Ways, 2)
	def(&c.Lines, 6)
	def(&c.Window, 4)
	def(&c.MSHR, 2)
	def(&c.PerCyc, 1)
	def(&c.Banks, 1)
	def(&c.PortBuf, 4)
	if len(c.PIDs) == 0 {
		c.PIDs = []int{1}
	}
	rng := rand.New(rand.NewSource(c.Seed))
	engine := timing.NewSerialEngine()
	regr := modeling.NewStandaloneRegistrar(engine)
	mkPort := func(comp messaging.Component, name string, n int) messaging.Port {
		return modeling.MakePortBuilder().WithRegistrar(regr).WithComponent(comp).
			WithSpec(modeling.PortSpec{BufSize: n}).Build(name)
	}

	msp := idealmemcontroller.DefaultSpec()
	msp.Latency = c.MemLat
	msp.Capacity = 1 << 20
	dram := idealmemcontroller.MakeBuilder().WithRegistrar(regr).WithSpec(msp).Build("DRAM")
	dram.AssignPort("Top", mkPort(dram, "Top", 8))
	dram.AssignPort("Control", mkPort(dram, "Control", 2))
	mapper := &mem.SinglePortMapper{Port: dram.GetPortByName("Top").AsRemote()}

	var (
		top, bottom, ctl messaging.Port
		dirState         func() *cache.DirectoryState
		hookable         hooking.Hookable
		tick             func()
	)
	total := uint64(c.Sets * c.Ways * 64)
	switch c.Kind {
	case "writeback":
		sp := writeback.DefaultSpec()
		sp.TotalByteSize = total
		sp.WayAssociativity = c.Ways
		sp.Log2BlockSize = 6
		sp.NumMSHREntry = c.MSHR
		sp.BankLatency = c.BankLat
		sp.DirLatency = c.DirLat
		sp.NumReqPerCycle = c.PerCyc
		sp.NumBanks = c.Banks
		sp.WriteBufferCapacity = 4
		sp.MaxInflightFetch = 2
		sp.MaxInflightEviction = 2
		cc := writeback.MakeBuilder().WithRegistrar(regr).WithSpec(sp).
			WithResources(writeback.Resources{AddressToPortMapper: mapper}).Build("Cache")
		for _, n := range []string{"Top", "Bottom", "Control"} {
			cc.AssignPort(n, mkPort(cc, n, c.PortBuf))
		}
		top, bottom, ctl = cc.GetPortByName("Top"), cc.GetPortByName("Bottom"), cc.GetPortByName("Control")
		dirState = func() *cache.DirectoryState { return &cc.State.DirectoryState }
		hookable, tick = cc, cc.TickLater
		if cc.Spec().NumSets != c.Sets {
			panic(fmt.Sprintf("cache has %d sets, wanted %d", cc.Spec().NumSets, c.Sets))
		}
	case "writethrough":
		sp := writethroughcache.DefaultSpec()
		sp.TotalByteSize = total
		sp.WayAssociativity = c.Ways
		sp.Log2BlockSize = 6
		sp.NumMSHREntry = c.MSHR
		sp.BankLatency = c.BankLat
		sp.DirLatency = c.DirLat
		sp.NumReqPerCycle = c.PerCyc
		sp.NumBanks = c.Banks
		sp.MaxNumConcurrentTrans = 8
		sp.WritePolicyType = c.Policy
		cc := writethroughcache.MakeBuilder().WithRegistrar(regr).WithSpec(sp).
			WithResources(writethroughcache.Resources{AddressMapper: mapper}).Build("Cache")
		for _, n := range []string{"Top", "Bottom", "Control"} {
			cc.AssignPort(n, mkPort(cc, n, c.PortBuf))
		}
		top, bottom, ctl = cc.GetPortByName("Top"), cc.GetPortByName("Bottom"), cc.GetPortByName("Control")
		dirState = func() *cache.DirectoryState { return &cc.State.DirectoryState }
		hookable, tick = cc, cc.TickLater
		if cc.Spec().NumSets != c.Sets {
			panic(fmt.Sprintf("cache has %d sets, wanted %d", cc.Spec().NumSets, c.Sets))
		}
	default:
		panic("unknown cache kind " + c.Kind)
	}

	rq := &cdRequester{c: c, cacheTop: top.AsRemote(), cacheCtl: ctl.AsRemote(), rng: rng}
	rq.ops = cdOps(c, rng)
	rq.Component = modeling.NewBuilder[struct{}, struct{}, modeling.None]().
		WithEngine(engine).WithFreq(1 * timing.GHz).WithSpec(struct{}{}).Build("Requester")
	rq.AddMiddleware(&cdReqMW{r: rq})
	rq.DeclarePort("Out", memprotocol.Requester)
	rq.DeclarePort("Ctl", memcontrolprotocol.Requester)
	rq.port = messaging.NewPort(rq, 8, 8, "Requester.Out")
	rq.ctl = messaging.NewPort(rq, 2, 2, "Requester.Ctl")
	rq.AssignPort("Out", rq.port)
	rq.AssignPort("Ctl", rq.ctl)

	conns := []*directconnection.Comp{}
	mkConn := func(name string, ports ...messaging.Port) {
		cn := directconnection.MakeBuilder().WithRegistrar(regr).Build(name)
		for _, p := range ports {
			cn.PlugIn(p)
		}
		conns = append(conns, cn)
	}
	mkConn("ConnTop", rq.port, top)
	mkConn("ConnBottom", bottom, dram.GetPortByName("Top"))
	mkConn("ConnCtl", rq.ctl, ctl)

	// ---- observation
	f, err := os.Create(c.Trace)
	if err != nil {
		panic(err)
	}
	defer f.Close()
	w := bufio.NewWriter(f)
	defer w.Flush()
	var lastJSON string
	var prev [][]projBlock
	snap := func(at string, cause map[string]any) {
		res.Snapshots++
		ds := dirState()
		d := projectDirectory(ds, c.Sets, 64, nil)
		b, err := json.Marshal(d)
		if err != nil {
			panic(err)
		}
		if string(b) == lastJSON {
			return
		}
		lastJSON = string(b)
		res.Records++
		recm := map[string]any{"i": res.Records, "t": uint64(engine.CurrentTime()), "at": at, "d": d}
		if cause != nil {
			recm["cause"] = cause
		}
		rec, _ := json.Marshal(recm)
		w.Write(rec)
		w.WriteByte('\n')
		old := prev
		cur, inv, why := checkDir(ds, c.Sets, prev)
		prev = cur
		if inv != "" && len(res.Violations) < 20 {
			res.Violations = append(res.Violations, cdViolation{Index: res.Records, Inv: inv, Why: why})
		}
		busy := false
		for s := range cur {
			for wy, b2 := range cur[s] {
				if b2.locked || b2.rc > 0 {
					busy = true
				}
				if b2.rc > res.MaxReaders {
					res.MaxReaders = b2.rc
				}
				if old != nil {
					b1 := old[s][wy]
					if b2.valid && (!b1.valid || b1.pid != b2.pid || b1.line != b2.line) {
						res.Fills++
						if b1.valid {
							res.Evictions++
						}
					}
				}
			}
		}
		if busy {
			res.BusySeen++
		}
	}
	snap("init", nil)
	// the request behind each receiver-side task of the cache, so that a record can
	// name the request whose processing was just tagged (read-miss, write-miss, ...)
	tasks := map[uint64]map[string]any{}
	hookable.AcceptHook(hookFn(func(ctx hooking.HookCtx) {
		name := "hook"
		if ctx.Pos != nil {
			name = "hook:" + ctx.Pos.Name
		}
		var cause map[string]any
		switch it := ctx.Item.(type) {
		case tracing.TaskStart:
			switch m := it.Detail.(type) {
			case memprotocol.ReadReq:
				tasks[it.ID] = map[string]any{"write": false, "pid": int(m.PID), "line": int(m.Address/64) + 1, "size": int(m.AccessByteSize)}
			case memprotocol.WriteReq:
				full := len(m.Data) == 64
				for _, b := range m.DirtyMask {
					full = full && b
				}
				tasks[it.ID] = map[string]any{"write": true, "pid": int(m.PID), "line": int(m.Address/64) + 1, "size": len(m.Data), "full": full}
			}
		case tracing.TaskTag:
			if t, ok := tasks[it.TaskID]; ok {
				cause = map[string]any{"what": it.What}
				for k, v := range t {
					cause[k] = v
				}
			}
		case tracing.TaskEnd:
			delete(tasks, it.ID)
		}
		snap(name, cause)
	}))
	engine.AcceptHook(hookFn(func(ctx hooking.HookCtx) {
		if ctx.Pos == timing.HookPosAfterEvent {
			res.Events++
			snap("event", nil)
		}
	}))

	rq.TickLater()
	if err := engine.Run(); err != nil {
		panic(err)
	}
	for kick := 0; kick < 8 && (rq.sent < len(rq.ops) || rq.outstanding > 0 || rq.ctlPending); kick++ {
		res.Kicks++
		rq.TickLater()
		tick()
		dram.TickLater()
		for _, cn := range conns {
			cn.TickLater()
		}
		if err := engine.Run(); err != nil {
			panic(err)
		}
	}
	res.Sent, res.Answered, res.CtlAcks = rq.sent, rq.answered, rq.acks
	return res
}

func init() {
	reg.Register("cachedir", func(raw json.RawMessage) (any, error) {
		var in struct {
			Cases []cdCase `json:"cases"`
		}
		if err := json.Unmarshal(raw, &in); err != nil {
			return nil, err
		}
		out := struct {
			Cases   int        `json:"cases"`
			Results []cdResult `json:"results"`
		}{Cases: len(in.Cases)}
		for i := range in.Cases {
			out.Results = append(out.Results, runCDCase(&in.Cases[i]))
		}
		return out, nil
	})
}
