// Package mmudir holds the drivers for C27 (MMU auto page allocation) and C19
// (cache directories).
package mmudir

import (
	"bytes"
	"encoding/json"
	"fmt"
	"io"

	"github.com/sarchlab/akita/v5/mem/vm"
	"github.com/sarchlab/akita/v5/mem/vm/mmu"
	"github.com/sarchlab/akita/v5/mem/vm/vmprotocol"
	"github.com/sarchlab/akita/v5/messaging"
	"github.com/sarchlab/akita/v5/modeling"
	"github.com/sarchlab/akita/v5/noc/directconnection"
	"github.com/sarchlab/akita/v5/timing"

	"verif/harness/internal/reg"
)

// ---------------------------------------------------------------- C27 input/output

// maPage is a page of an MMUAlloc.tla case, in abstract units (U per MMU page);
// VA is a virtual page number.
type maPage struct {
	PID  uint32 `json:"pid"`
	VA   uint64 `json:"va"`
	Base uint64 `json:"base"`
	Size uint64 `json:"size"`
}

type maKey struct {
	PID uint32 `json:"pid"`
	VA  uint64 `json:"va"`
}

// maCase is one (pre-populated table, request stream) case plus the timing
// parameters of this run.
type maCase struct {
	ID     int      `json:"id"`
	Pre    []maPage `json:"pre"`
	Stream []maKey  `json:"stream"`
	Lat    int      `json:"lat"`    // MMU walk latency
	MaxFl  int      `json:"maxfl"`  // MMU MaxRequestsInFlight
	Window int      `json:"window"` // requester: outstanding requests allowed
	TopBuf int      `json:"topbuf"` // MMU Top port buffer size
	Offset uint64   `json:"offset"` // byte offset inside the virtual page used by request i: (i*Offset) mod page
	// PreValid is the Valid bit given to the pre-populated pages (nil = true).
	PreValid *bool `json:"prevalid"`
}

type maInput struct {
	Log2Page  uint64   `json:"log2_page"`
	UnitBytes uint64   `json:"unit_bytes"`
	Cases     []maCase `json:"cases"`
}

// obsPage is an observed page in bytes.
type obsPage struct {
	PID   uint32 `json:"pid"`
	VA    uint64 `json:"va"`
	Base  uint64 `json:"base"`
	Size  uint64 `json:"size"`
	Valid bool   `json:"valid"`
}

type obsRsp struct {
	Req int     `json:"req"` // 1-based index into the stream, 0 when the response matches no request
	N   int     `json:"n"`   // how many responses this request received
	P   obsPage `json:"p"`
}

// maObs is what was observed for one case: everything in bytes.
type maObs struct {
	ID        int       `json:"id"`
	PageBytes uint64    `json:"page_bytes"`
	Pre       []obsPage `json:"pre"`
	Reqs      []obsPage `json:"reqs"` // pid + page-aligned va of each request (other fields 0)
	Table     []obsPage `json:"table"`
	Rsps      []obsRsp  `json:"rsps"`
	Missing   int       `json:"missing"`  // requests without a response at quiescence
	Stranded  int       `json:"stranded"` // messages left in ports at quiescence
	Kicks     int       `json:"kicks"`    // extra wake-ups needed to reach the end (W1, not C27's subject)
	Cursor    uint64    `json:"cursor"`   // State.NextPhysicalPage at the end
	Err       string    `json:"err,omitempty"`
}

type maOutput struct {
	Cases int     `json:"cases"`
	Obs   []maObs `json:"obs"`
}

// ---------------------------------------------------------------- requester

type maRequester struct {
	*modeling.Component[struct{}, struct{}, modeling.None]
	port    messaging.Port
	mmuTop  messaging.RemotePort
	c       *maCase
	log2    uint64
	sent    int
	ids     []uint64
	rsps    []vmprotocol.TranslationRsp
	foreign []string
}

type maReqMW struct{ r *maRequester }

func (m *maReqMW) Tick() bool {
	r := m.r
	progress := false
	for {
		msg := r.port.RetrieveIncoming()
		if msg == nil {
			break
		}
		progress = true
		if rsp, ok := msg.(vmprotocol.TranslationRsp); ok {
			r.rsps = append(r.rsps, rsp)
		} else {
			r.foreign = append(r.foreign, fmt.Sprintf("%T", msg))
		}
	}
	for r.sent < len(r.c.Stream) && r.sent-len(r.rsps) < r.c.Window {
		if !r.port.CanSend() {
			break
		}
		k := r.c.Stream[r.sent]
		page := uint64(1) << r.log2
		req := vmprotocol.TranslationReq{
			VAddr:    k.VA<<r.log2 + (uint64(r.sent)*r.c.Offset)%page,
			PID:      vm.PID(k.PID),
			DeviceID: 1,
		}
		req.ID = timing.GetIDGenerator().Generate()
		req.Src = r.port.AsRemote()
		req.Dst = r.mmuTop
		req.TrafficClass = "vmprotocol.TranslationReq"
		r.ids = append(r.ids, req.ID)
		r.port.Send(req)
		r.sent++
		progress = true
	}
	return progress
}

// ---------------------------------------------------------------- one case

type checkpointer interface {
	SaveCheckpoint(w io.Writer) error
}

// dumpTable lists every page of the real page table through its checkpoint
// (the PageTable interface has no iteration).
func dumpTable(pt vm.PageTable) ([]obsPage, error) {
	cp, ok := pt.(checkpointer)
	if !ok {
		return nil, fmt.Errorf("page table %T cannot be enumerated (no SaveCheckpoint)", pt)
	}
	var buf bytes.Buffer
	if err := cp.SaveCheckpoint(&buf); err != nil {
		return nil, err
	}
	var dto struct {
		Tables []struct {
			PID   uint32    `json:"pid"`
			Pages []vm.Page `json:"pages"`
		} `json:"tables"`
	}
	if err := json.Unmarshal(buf.Bytes(), &dto); err != nil {
		return nil, err
	}
	var out []obsPage
	for _, t := range dto.Tables {
		for _, p := range t.Pages {
			out = append(out, obsPage{PID: uint32(p.PID), VA: p.VAddr, Base: p.PAddr, Size: p.PageSize, Valid: p.Valid})
		}
	}
	return out, nil
}

func runMACase(in *maInput, c *maCase) (obs maObs) {
	obs.ID = c.ID
	obs.PageBytes = uint64(1) << in.Log2Page
	defer func() {
		if p := recover(); p != nil {
			obs.Err = "panic: " + fmt.Sprint(p)
		}
	}()
	if c.MaxFl <= 0 {
		c.MaxFl = 4
	}
	if c.Window <= 0 {
		c.Window = len(c.Stream)
	}
	if c.TopBuf <= 0 {
		c.TopBuf = 4
	}
	engine := timing.NewSerialEngine()
	regr := modeling.NewStandaloneRegistrar(engine)

	pt := vm.MakePageTableBuilder().WithLog2PageSize(in.Log2Page).Build("PT")
	preValid := c.PreValid == nil || *c.PreValid
	for _, p := range c.Pre {
		pg := vm.Page{PID: vm.PID(p.PID), VAddr: p.VA << in.Log2Page, PAddr: p.Base * in.UnitBytes,
			PageSize: p.Size * in.UnitBytes, Valid: preValid, DeviceID: 1, Unified: true}
		pt.Insert(pg)
		obs.Pre = append(obs.Pre, obsPage{PID: p.PID, VA: pg.VAddr, Base: pg.PAddr, Size: pg.PageSize, Valid: preValid})
	}
	for _, k := range c.Stream {
		obs.Reqs = append(obs.Reqs, obsPage{PID: k.PID, VA: k.VA << in.Log2Page})
	}

	spec := mmu.DefaultSpec()
	spec.AutoPageAllocation = true
	spec.Log2PageSize = in.Log2Page
	spec.Latency = c.Lat
	spec.MaxRequestsInFlight = c.MaxFl
	m := mmu.MakeBuilder().WithRegistrar(regr).WithSpec(spec).
		WithResources(mmu.Resources{PageTable: pt}).Build("MMU")
	m.AssignPort("Top", modeling.MakePortBuilder().WithRegistrar(regr).WithComponent(m).
		WithSpec(modeling.PortSpec{BufSize: c.TopBuf}).Build("Top"))
	m.AssignPort("Control", modeling.MakePortBuilder().WithRegistrar(regr).WithComponent(m).
		WithSpec(modeling.PortSpec{BufSize: 2}).Build("Control"))

	rq := &maRequester{c: c, log2: in.Log2Page, mmuTop: m.GetPortByName("Top").AsRemote()}
	rq.Component = modeling.NewBuilder[struct{}, struct{}, modeling.None]().
		WithEngine(engine).WithFreq(1 * timing.GHz).WithSpec(struct{}{}).Build("Requester")
	rq.AddMiddleware(&maReqMW{r: rq})
	rq.DeclarePort("Out", vmprotocol.Requester)
	rq.port = messaging.NewPort(rq, 4, 4, "Requester.Out")
	rq.AssignPort("Out", rq.port)

	conn := directconnection.MakeBuilder().WithRegistrar(regr).Build("Conn")
	conn.PlugIn(rq.port)
	conn.PlugIn(m.GetPortByName("Top"))

	rq.TickLater()
	if err := engine.Run(); err != nil {
		panic(err)
	}
	// A wake-up lost by a connection (watch-list W1, property C09) is not this
	// property's subject: wake everybody again until nothing moves any more.
	for kick := 0; kick < 8 && len(rq.rsps) < len(c.Stream); kick++ {
		obs.Kicks++
		rq.TickLater()
		m.TickLater()
		conn.TickLater()
		if err := engine.Run(); err != nil {
			panic(err)
		}
	}

	tbl, err := dumpTable(m.Resources().PageTable)
	if err != nil {
		obs.Err = err.Error()
		return obs
	}
	obs.Table = tbl
	obs.Cursor = m.State.NextPhysicalPage

	idx := map[uint64]int{}
	for i, id := range rq.ids {
		idx[id] = i + 1
	}
	count := map[int]int{}
	for _, r := range rq.rsps {
		count[idx[r.RspTo]]++
	}
	for _, r := range rq.rsps {
		q := idx[r.RspTo]
		obs.Rsps = append(obs.Rsps, obsRsp{Req: q, N: count[q], P: obsPage{PID: uint32(r.Page.PID), VA: r.Page.VAddr,
			Base: r.Page.PAddr, Size: r.Page.PageSize, Valid: r.Page.Valid}})
	}
	for i := range rq.ids {
		if count[i+1] == 0 {
			obs.Missing++
		}
	}
	obs.Missing += len(c.Stream) - len(rq.ids)
	for _, po := range []messaging.PortOwner{m, rq} {
		for _, p := range po.Ports() {
			obs.Stranded += p.NumIncoming() + p.NumOutgoing()
		}
	}
	if len(rq.foreign) > 0 {
		obs.Err = "foreign messages: " + fmt.Sprint(rq.foreign)
	}
	return obs
}

func init() {
	reg.Register("mmualloc", func(raw json.RawMessage) (any, error) {
		var in maInput
		if err := json.Unmarshal(raw, &in); err != nil {
			return nil, err
		}
		if in.Log2Page == 0 {
			in.Log2Page = 12
		}
		if in.UnitBytes == 0 {
			in.UnitBytes = (uint64(1) << in.Log2Page) / 2
		}
		out := maOutput{Cases: len(in.Cases)}
		for i := range in.Cases {
			out.Obs = append(out.Obs, runMACase(&in, &in.Cases[i]))
		}
		return out, nil
	})
}
