package mmudir

import (
	"encoding/json"
	"fmt"
	"strconv"

	"github.com/sarchlab/akita/v5/mem/cache"
	"github.com/sarchlab/akita/v5/mem/vm"

	"verif/harness/internal/reg"
	"verif/harness/internal/replay"
)

// C19 (B1): cache.DirectoryState stepped through Directory.tla behaviours with
// the exported functions DirectoryLookup / DirectoryFindVictim / DirectoryVisit
// / DirectoryReset; the block updates around them (fill, lock, unlock, read
// counts, invalidate) are done the way the caches do them.

type dirObj struct {
	ds        cache.DirectoryState
	numSets   int
	numWays   int
	blockSize int
	addrOf    map[int]uint64 // abstract line id -> concrete line address
	lineOf    map[uint64]int
}

// projectDirectory renders a DirectoryState in the shape of DirectoryDefs.tla:
// per set <<order (ways from 1, LRU first), blocks>>, a block being
// <<valid, locked, readers, pid, line, home>>. lineOf maps a tag to the
// abstract line id (nil: the line is tag/blockSize + 1).
func projectDirectory(ds *cache.DirectoryState, numSets, blockSize int, lineOf map[uint64]int) []any {
	out := make([]any, 0, len(ds.Sets))
	for _, set := range ds.Sets {
		order := make([]int, len(set.LRUOrder))
		for i, w := range set.LRUOrder {
			order[i] = w + 1
		}
		blocks := make([]any, 0, len(set.Blocks))
		for _, b := range set.Blocks {
			if !b.IsValid {
				blocks = append(blocks, []any{false, b.IsLocked, b.ReadCount, 0, 0, 0})
				continue
			}
			line := -1
			if lineOf == nil {
				line = int(b.Tag/uint64(blockSize)) + 1
			} else if l, ok := lineOf[b.Tag]; ok {
				line = l
			}
			home := cache.DirectorySetID(b.Tag, blockSize, numSets) + 1
			blocks = append(blocks, []any{true, b.IsLocked, b.ReadCount, int(b.PID), line, home})
		}
		out = append(out, []any{order, blocks})
	}
	return out
}

func (o *dirObj) Project() any {
	return projectDirectory(&o.ds, o.numSets, o.blockSize, o.lineOf)
}

func (o *dirObj) block(arg any) (*cache.BlockState, int, int) {
	s := replay.Num(replay.Field(arg, "set")) - 1
	w := replay.Num(replay.Field(arg, "way")) - 1
	return &o.ds.Sets[s].Blocks[w], s, w
}

func (o *dirObj) Apply(a map[string]any) any {
	arg := a["arg"]
	switch replay.Str(a["op"]) {
	case "lookup":
		addr := o.addrOf[replay.Num(replay.Field(arg, "line"))]
		s, w, found := cache.DirectoryLookup(&o.ds, o.numSets, o.blockSize,
			vm.PID(replay.Num(replay.Field(arg, "pid"))), addr)
		if !found {
			// the way is meaningless when nothing is found
			return map[string]any{"set": s + 1, "way": 0, "found": false}
		}
		return map[string]any{"set": s + 1, "way": w + 1, "found": true}
	case "findvictim":
		addr := o.addrOf[replay.Num(replay.Field(arg, "line"))]
		s, w := cache.DirectoryFindVictim(&o.ds, o.numSets, o.blockSize, addr)
		want := a["res"]
		okSet := replay.Num(replay.Field(want, "set")) == s+1
		okWay := false
		for _, x := range replay.Ints(replay.Field(want, "ways")) {
			if x == w+1 {
				okWay = true
			}
		}
		if okSet && okWay {
			return want // one of the acceptable answers
		}
		got := map[string]any{"set": s + 1, "way": w + 1}
		if s >= 0 && s < len(o.ds.Sets) && w >= 0 && w < len(o.ds.Sets[s].Blocks) {
			b := o.ds.Sets[s].Blocks[w]
			got["locked"], got["readers"] = b.IsLocked, b.ReadCount
		}
		return got
	case "visit":
		_, s, w := o.block(arg)
		cache.DirectoryVisit(&o.ds, s, w)
		return "ok"
	case "fill":
		b, s, w := o.block(arg)
		pid := replay.Num(replay.Field(arg, "pid"))
		addr := o.addrOf[replay.Num(replay.Field(arg, "line"))]
		// what a cache does before it installs a line: look it up, find where it belongs
		if _, _, found := cache.DirectoryLookup(&o.ds, o.numSets, o.blockSize, vm.PID(pid), addr); found {
			return "lookup finds the line although the specification says it is absent"
		}
		if vs, _ := cache.DirectoryFindVictim(&o.ds, o.numSets, o.blockSize, addr); vs != s {
			return fmt.Sprintf("victim search names set %d for a line of set %d", vs+1, s+1)
		}
		b.Tag = addr
		b.PID = uint32(pid)
		b.IsValid = true
		b.IsLocked = true
		cache.DirectoryVisit(&o.ds, s, w)
		return "ok"
	case "lock":
		b, s, w := o.block(arg)
		cache.DirectoryVisit(&o.ds, s, w)
		b.IsLocked = true
		return "ok"
	case "unlock":
		b, _, _ := o.block(arg)
		b.IsLocked = false
		return "ok"
	case "startread":
		b, s, w := o.block(arg)
		cache.DirectoryVisit(&o.ds, s, w)
		b.ReadCount++
		return "ok"
	case "endread":
		b, _, _ := o.block(arg)
		b.ReadCount--
		return "ok"
	case "invalidate":
		b, _, _ := o.block(arg)
		b.IsValid = false
		return "ok"
	case "reset":
		cache.DirectoryReset(&o.ds, o.numSets, o.numWays, o.blockSize)
		return "ok"
	}
	return "unknown op"
}

func init() {
	reg.Register("directory", replay.Driver(func(cfg map[string]any, init any) (replay.Object, error) {
		o := &dirObj{numSets: replay.Num(cfg["num_sets"]), numWays: replay.Num(cfg["num_ways"]),
			blockSize: replay.Num(cfg["block_size"]), addrOf: map[int]uint64{}, lineOf: map[uint64]int{}}
		lines, _ := cfg["lines"].(map[string]any)
		for k, v := range lines {
			l, err := strconv.Atoi(k)
			if err != nil {
				return nil, err
			}
			o.addrOf[l] = replay.U64(v)
			o.lineOf[replay.U64(v)] = l
		}
		if o.numSets <= 0 || o.numWays <= 0 || o.blockSize <= 0 || len(o.addrOf) == 0 {
			return nil, fmt.Errorf("bad directory config %v", cfg)
		}
		cache.DirectoryReset(&o.ds, o.numSets, o.numWays, o.blockSize)
		return o, nil
	}))

	// dirsetid: the real set index of a list of line addresses (used by the check
	// to choose concrete addresses for the abstract lines of Directory.tla).
	reg.Register("dirsetid", func(raw json.RawMessage) (any, error) {
		var in struct {
			BlockSize int      `json:"block_size"`
			NumSets   int      `json:"num_sets"`
			Addrs     []uint64 `json:"addrs"`
		}
		if err := json.Unmarshal(raw, &in); err != nil {
			return nil, err
		}
		out := make([]int, len(in.Addrs))
		for i, a := range in.Addrs {
			out[i] = cache.DirectorySetID(a, in.BlockSize, in.NumSets)
		}
		return map[string]any{"sets": out}, nil
	})
}
