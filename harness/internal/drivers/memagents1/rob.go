package memagents1

import (
	"bytes"
	"encoding/binary"
	"encoding/json"
	"fmt"
	"math/rand"

	"github.com/sarchlab/akita/v5/hooking"
	"github.com/sarchlab/akita/v5/mem/memcontrolprotocol"
	"github.com/sarchlab/akita/v5/mem/memprotocol"
	"github.com/sarchlab/akita/v5/mem/rob"
	"github.com/sarchlab/akita/v5/messaging"
	"github.com/sarchlab/akita/v5/modeling"
	"github.com/sarchlab/akita/v5/noc/directconnection"
	"github.com/sarchlab/akita/v5/timing"

	"verif/harness/internal/reg"
)

// C21: a real mem/rob between a two-port driver agent (top) and a scripted
// lower unit (bottom). The driver reports what crossed the reorder buffer's
// Top port (acceptances and answers) and what the lower unit did.

type robStep struct {
	Op      string `json:"op"`      // "complete" | "quiet" | "reset"
	Req     int    `json:"req"`     // 1-based, in acceptance order
	Arrived int    `json:"arrived"` // requests accepted before this step in the specification's behaviour
}

type robCase struct {
	Cap    int       `json:"cap"`
	Kinds  []string  `json:"kinds"` // per request "read" | "write"
	Who    []string  `json:"who"`   // per request "A" | "B"
	Script []robStep `json:"script"`
	// environment (not part of the specification's behaviour)
	Width     int   `json:"width"`      // NumReqPerCycle
	TopBuf    int   `json:"top_buf"`    // buffer size of the reorder buffer's Top port
	TopOut    int   `json:"top_out"`    // outgoing capacity of the reorder buffer's Top port (0: same as top_buf)
	Stall     int   `json:"stall"`      // the requesters pick up answers only every Stall-th cycle, one per port (0/1: every cycle, all)
	StallSeed int64 `json:"stall_seed"` // ... with seeded extra stalls
	BottomBuf int   `json:"bottom_buf"` // ... Bottom port
	AgentBuf  int   `json:"agent_buf"`  // driver and lower unit ports
	Quiet     int   `json:"quiet"`      // cycles of a "quiet" step
	Random    bool  `json:"random"`     // lower unit completes seeded-randomly instead of following Script
	Seed      int64 `json:"seed"`
	Prob      int   `json:"prob"` // random mode: percent chance per cycle of completing one (more) request
}

type robAccepted struct {
	Send int    `json:"send"` // 1-based index in the driver's send order
	Who  string `json:"who"`
	Kind string `json:"kind"`
	Addr uint64 `json:"addr"`
}

type robAnswer struct {
	Req     int    `json:"req"` // acceptance index of the request whose ID is RspTo (0: none)
	Kind    string `json:"kind"`
	To      string `json:"to"`       // requester whose port is Dst ("?" if neither)
	DataReq int    `json:"data_req"` // reads: acceptance index of the request the carried result belongs to (0: none, -1: no recognisable result)
	DataPos int    `json:"data_pos"` // reads: completion position tagged by the lower unit
	Cycle   uint64 `json:"cycle"`
}

type robLower struct {
	Arrival int    `json:"arrival"` // arrival index at the lower unit
	Req     int    `json:"req"`     // acceptance index of the request with the same address (0: none)
	Kind    string `json:"kind"`
	Pos     int    `json:"pos"` // completion position (0: never completed)
	Same    bool   `json:"same"`
}

type robResult struct {
	Accepted    []robAccepted    `json:"accepted"`
	Answers     []robAnswer      `json:"answers"`
	Lower       []robLower       `json:"lower"`
	Received    map[string][]int `json:"received"` // per requester: acceptance indices of the answers delivered to it
	Deviated    bool             `json:"deviated"`
	Sent        int              `json:"sent"`
	Cycles      uint64           `json:"cycles"`
	MaxInROB    int              `json:"max_in_rob"`
	ResetAcc    int              `json:"reset_acc"` // requests accepted when the reset was sent (0: no reset)
	ResetAns    int              `json:"reset_ans"` // answers sent when the reset was acknowledged
	ResetOK     bool             `json:"reset_ok"`  // the reset was acknowledged with Success
	BusyAtBound bool             `json:"busy_at_bound"`
	Panic       string           `json:"panic,omitempty"`
}

type robInput struct {
	Cases []robCase `json:"cases"`
}

type robOutput struct {
	Cases   int         `json:"cases"`
	Results []robResult `json:"results"`
	Aborted bool        `json:"aborted"`
}

const robMagic0, robMagic1 = 0xC2, 0x1B

func kindOf(m messaging.Msg) string {
	switch m.(type) {
	case memprotocol.ReadReq:
		return "read"
	case memprotocol.WriteReq:
		return "write"
	case memprotocol.DataReadyRsp:
		return "read"
	case memprotocol.WriteDoneRsp:
		return "write"
	}
	return fmt.Sprintf("%T", m)
}

// ---- top: the driver agent with two requester ports

type sentReq struct {
	msg  messaging.Msg
	who  string
	kind string
	addr uint64
	data []byte
}

type topAgent struct {
	*modeling.Component[struct{}, struct{}, modeling.None]
	c        *robCase
	ports    map[string]messaging.Port
	robTop   messaging.RemotePort
	sent     []sentReq
	need     []int // need[g]: completions the lower unit must have performed before request g+1 is sent
	lower    *lowerAgent
	recv     map[string][]uint64 // RspTo per port, in delivery order
	accepted *int                // requests the reorder buffer has retrieved from its Top port so far
	waited   int

	ctrl       messaging.Port
	robCtrl    messaging.RemotePort
	resetAt    int // the reset follows the acceptance of this many requests (-1: no reset)
	resetComps int // ... and this many completions of the lower unit
	resetState int // 0 not yet, 1 settling, 2 sent, 3 acknowledged
	settle     int
	resetID    uint64
	resetWait  int
	nAnswers   *int // answers the reorder buffer has sent so far
	res        *robResult
	stallRng   *rand.Rand
	engine     timing.Engine
}

func writeData(g int) []byte {
	d := make([]byte, 8)
	binary.LittleEndian.PutUint32(d, uint32(0xA5000000+g))
	binary.LittleEndian.PutUint32(d[4:], uint32(g*2654435761))
	return d
}

type topMW struct{ a *topAgent }

func (m *topMW) Tick() bool {
	a := m.a
	progress := false
	// picking up answers: promptly, or slowly (every Stall-th cycle, one per port, with seeded extra stalls)
	now := uint64(a.engine.CurrentTime()) / 1000
	slow := a.c.Stall > 1
	pick := !slow || (now%uint64(a.c.Stall) == 0 && a.stallRng.Intn(4) != 0)
	for _, w := range []string{"A", "B"} {
		for pick {
			msg := a.ports[w].RetrieveIncoming()
			if msg == nil {
				break
			}
			progress = true
			a.recv[w] = append(a.recv[w], msg.Meta().RspTo)
			if slow {
				break
			}
		}
		if a.ports[w].PeekIncoming() != nil {
			progress = true // come back for the rest
		}
	}
	// the reset, when the behaviour has one
	switch a.resetState {
	case 0:
		if a.resetAt >= 0 && len(a.sent) == a.resetAt && *a.accepted >= a.resetAt && a.lower.nComp >= a.resetComps {
			a.resetState, a.settle = 1, a.c.Quiet+25+4*a.c.Stall*len(a.c.Kinds)
			progress = true
		} else if a.resetAt >= 0 && len(a.sent) == a.resetAt {
			a.resetWait++ // keep ticking until the acceptances / completions before the reset have happened
			if a.resetWait < 10*lowerPatience {
				progress = true
			}
		}
	case 1:
		progress = true
		a.settle--
		if a.settle <= 0 && a.ctrl.CanSend() {
			req := memcontrolprotocol.Req{Command: memcontrolprotocol.CmdReset}
			req.ID = timing.GetIDGenerator().Generate()
			req.Src, req.Dst = a.ctrl.AsRemote(), a.robCtrl
			req.TrafficClass = "memcontrolprotocol.Req"
			a.resetID = req.ID
			a.res.ResetAcc = *a.accepted
			a.ctrl.Send(req)
			a.resetState = 2
		}
	case 2:
		a.waited++
		progress = a.waited < lowerPatience
		if msg := a.ctrl.RetrieveIncoming(); msg != nil {
			if rsp, ok := msg.(memcontrolprotocol.Rsp); ok && rsp.RspTo == a.resetID {
				a.res.ResetOK = rsp.Success
				a.res.ResetAns = *a.nAnswers
				a.resetState, a.waited = 3, 0
				a.lower.resetAcked = true
				progress = true
			}
		}
	}
	for len(a.sent) < len(a.c.Kinds) {
		g := len(a.sent)
		if a.resetAt >= 0 && g >= a.resetAt && a.resetState != 3 {
			break // requests after the reset wait for its acknowledgment
		}
		if a.need != nil && a.lower.nComp < a.need[g] {
			progress = true // wait for the lower unit (bounded by its own patience)
			if a.lower.gaveUp {
				a.need = nil
			}
			break
		}
		w := a.c.Who[g]
		p := a.ports[w]
		// two requests on different ports could be accepted in either order: in scripted
		// mode the later one waits until the earlier one is accepted, so that the
		// acceptance order is the specification's numbering
		if !a.c.Random && g > 0 && a.c.Who[g-1] != w && *a.accepted < g {
			a.waited++
			progress = a.waited < lowerPatience
			break
		}
		if !p.CanSend() {
			break
		}
		a.waited = 0
		addr := uint64(0x1000 + 64*g)
		var msg messaging.Msg
		s := sentReq{who: w, kind: a.c.Kinds[g], addr: addr}
		if a.c.Kinds[g] == "read" {
			r := memprotocol.ReadReq{Address: addr, AccessByteSize: 8}
			r.ID = timing.GetIDGenerator().Generate()
			r.Src = p.AsRemote()
			r.Dst = a.robTop
			r.TrafficBytes = 12
			r.TrafficClass = "memprotocol.ReadReq"
			msg = r
		} else {
			s.data = writeData(g)
			r := memprotocol.WriteReq{Address: addr, Data: s.data}
			r.ID = timing.GetIDGenerator().Generate()
			r.Src = p.AsRemote()
			r.Dst = a.robTop
			r.TrafficBytes = 20
			r.TrafficClass = "memprotocol.WriteReq"
			msg = r
		}
		s.msg = msg
		a.sent = append(a.sent, s)
		p.Send(msg)
		progress = true
	}
	return progress
}

// ---- bottom: the scripted lower unit

type arrival struct {
	msg   messaging.Msg
	kind  string
	addr  uint64
	pos   int
	cycle uint64
}

type lowerAgent struct {
	*modeling.Component[struct{}, struct{}, modeling.None]
	c        *robCase
	port     messaging.Port
	arrived  []*arrival
	step     int
	quiet    int
	waited   int
	nComp    int
	deviated bool
	gaveUp   bool
	rng      *rand.Rand
	total    int

	resetAcked bool
}

const lowerPatience = 400

func (l *lowerAgent) respond(a *arrival) {
	l.nComp++
	a.pos = l.nComp
	if a.kind == "read" {
		d := make([]byte, 8)
		binary.LittleEndian.PutUint32(d, uint32(a.addr))
		binary.LittleEndian.PutUint16(d[4:], uint16(a.pos))
		d[6], d[7] = robMagic0, robMagic1
		rsp := memprotocol.DataReadyRsp{Data: d}
		rsp.ID = timing.GetIDGenerator().Generate()
		rsp.Src = l.port.AsRemote()
		rsp.Dst = a.msg.Meta().Src
		rsp.RspTo = a.msg.Meta().ID
		rsp.TrafficBytes = 12
		rsp.TrafficClass = "memprotocol.DataReadyRsp"
		l.port.Send(rsp)
		return
	}
	rsp := memprotocol.WriteDoneRsp{}
	rsp.ID = timing.GetIDGenerator().Generate()
	rsp.Src = l.port.AsRemote()
	rsp.Dst = a.msg.Meta().Src
	rsp.RspTo = a.msg.Meta().ID
	rsp.TrafficBytes = 4
	rsp.TrafficClass = "memprotocol.WriteDoneRsp"
	l.port.Send(rsp)
}

func (l *lowerAgent) outstanding() []*arrival {
	var o []*arrival
	for _, a := range l.arrived {
		if a.pos == 0 {
			o = append(o, a)
		}
	}
	return o
}

type lowerMW struct{ l *lowerAgent }

func (m *lowerMW) Tick() bool {
	l := m.l
	for {
		msg := l.port.RetrieveIncoming()
		if msg == nil {
			break
		}
		a := &arrival{msg: msg, kind: kindOf(msg)}
		if r, ok := msg.(memprotocol.AccessReq); ok {
			a.addr = r.GetAddress()
		}
		l.arrived = append(l.arrived, a)
		l.waited = 0
	}
	if l.c.Random {
		for i := 0; i < 3; i++ {
			out := l.outstanding()
			if len(out) == 0 || l.rng.Intn(100) >= l.c.Prob || !l.port.CanSend() {
				break
			}
			l.respond(out[l.rng.Intn(len(out))])
			l.waited = 0
		}
		return l.nComp < l.total && (len(l.outstanding()) > 0 || l.patience())
	}
	for l.step < len(l.c.Script) {
		st := l.c.Script[l.step]
		if st.Op == "reset" { // the driver agent's step: wait until the reset has been acknowledged
			if !l.resetAcked {
				l.waited++
				if l.waited < 20*lowerPatience {
					return true
				}
				l.deviated = true
			}
			l.waited = 0
			l.step++
			continue
		}
		if st.Op == "quiet" {
			if l.quiet == 0 {
				l.quiet = l.c.Quiet + 1
			}
			l.quiet--
			if l.quiet > 0 {
				return true
			}
			l.step++
			continue
		}
		ready := len(l.arrived) >= st.Arrived && len(l.arrived) >= st.Req && l.arrived[st.Req-1].pos == 0
		if !ready {
			if len(l.arrived) >= st.Req && l.arrived[st.Req-1].pos != 0 {
				l.step++ // already completed by a fallback
				continue
			}
			if l.patience() {
				return true
			}
			// the behaviour cannot be imposed on this reorder buffer: complete what is there
			l.deviated = true
			out := l.outstanding()
			if len(out) == 0 {
				l.gaveUp = true
				return false
			}
			if !l.port.CanSend() {
				return true
			}
			l.respond(out[0])
			l.waited = 0
			continue
		}
		if !l.port.CanSend() {
			return l.patience()
		}
		l.respond(l.arrived[st.Req-1])
		l.waited = 0
		l.step++
	}
	// script exhausted: anything else that arrives is completed at once
	for _, a := range l.outstanding() {
		if !l.port.CanSend() {
			return true
		}
		l.deviated = true
		l.respond(a)
	}
	return false
}

func (l *lowerAgent) patience() bool {
	l.waited++
	return l.waited < lowerPatience
}

func orDefault(v, d int) int {
	if v == 0 {
		return d
	}
	return v
}

func runROBCase(c *robCase) (res robResult) {
	defer func() {
		if p := recover(); p != nil {
			res.Panic = fmt.Sprint(p)
		}
	}()
	c.Width = orDefault(c.Width, 2)
	c.TopBuf = orDefault(c.TopBuf, 4)
	c.BottomBuf = orDefault(c.BottomBuf, 4)
	c.AgentBuf = orDefault(c.AgentBuf, 4)
	c.Quiet = orDefault(c.Quiet, 8)
	c.Prob = orDefault(c.Prob, 50)
	n := len(c.Kinds)

	engine := timing.NewSerialEngine()
	regr := modeling.NewStandaloneRegistrar(engine)

	lower := &lowerAgent{c: c, rng: rand.New(rand.NewSource(c.Seed)), total: n}
	lower.Component = modeling.NewBuilder[struct{}, struct{}, modeling.None]().
		WithEngine(engine).WithFreq(1 * timing.GHz).WithSpec(struct{}{}).Build("Lower")
	lower.AddMiddleware(&lowerMW{l: lower})
	lower.DeclarePort("Top", memprotocol.Responder)
	lower.port = messaging.NewPort(lower, c.AgentBuf, c.AgentBuf, "Lower.Top")
	lower.AssignPort("Top", lower.port)

	spec := rob.DefaultSpec()
	spec.BufferSize = c.Cap
	spec.NumReqPerCycle = c.Width
	spec.BottomUnit = lower.port.AsRemote()
	r := rob.MakeBuilder().WithRegistrar(regr).WithSpec(spec).Build("ROB")
	for name, size := range map[string]int{"Bottom": c.BottomBuf, "Control": 2} {
		r.AssignPort(name, modeling.MakePortBuilder().WithRegistrar(regr).WithComponent(r).
			WithSpec(modeling.PortSpec{BufSize: size}).Build(name))
	}
	// the Top port's incoming and outgoing capacities are chosen separately
	r.AssignPort("Top", messaging.NewPort(r, c.TopBuf, orDefault(c.TopOut, c.TopBuf), "ROB.Top"))
	robTop, robBottom := r.GetPortByName("Top"), r.GetPortByName("Bottom")

	top := &topAgent{c: c, ports: map[string]messaging.Port{}, robTop: robTop.AsRemote(), lower: lower,
		recv: map[string][]uint64{}, resetAt: -1, res: &res, engine: engine,
		stallRng: rand.New(rand.NewSource(c.StallSeed + 17)), robCtrl: r.GetPortByName("Control").AsRemote()}
	top.Component = modeling.NewBuilder[struct{}, struct{}, modeling.None]().
		WithEngine(engine).WithFreq(1 * timing.GHz).WithSpec(struct{}{}).Build("Driver")
	top.AddMiddleware(&topMW{a: top})
	for _, w := range []string{"A", "B"} {
		top.DeclarePort(w, memprotocol.Requester)
		top.ports[w] = messaging.NewPort(top, c.AgentBuf, c.AgentBuf, "Driver."+w)
		top.AssignPort(w, top.ports[w])
	}
	if !c.Random && len(c.Script) > 0 {
		// request j is sent once the lower unit has performed every completion that
		// precedes its acceptance in the specification's behaviour
		top.need = make([]int, n)
		for g := 0; g < n; g++ {
			cnt := 0
			for _, st := range c.Script {
				if st.Op == "complete" && st.Arrived < g+1 {
					cnt++
				}
			}
			top.need[g] = cnt
		}
	}

	top.DeclarePort("Ctrl", memcontrolprotocol.Requester)
	top.ctrl = messaging.NewPort(top, 2, 2, "Driver.Ctrl")
	top.AssignPort("Ctrl", top.ctrl)
	for i, st := range c.Script {
		if st.Op == "reset" {
			top.resetAt = st.Arrived
			for _, e := range c.Script[:i] {
				if e.Op == "complete" {
					top.resetComps++
				}
			}
		}
	}
	cc := directconnection.MakeBuilder().WithRegistrar(regr).Build("ConnCtrl")
	cc.PlugIn(top.ctrl)
	cc.PlugIn(r.GetPortByName("Control"))
	ct := directconnection.MakeBuilder().WithRegistrar(regr).Build("ConnTop")
	ct.PlugIn(top.ports["A"])
	ct.PlugIn(top.ports["B"])
	ct.PlugIn(robTop)
	cb := directconnection.MakeBuilder().WithRegistrar(regr).Build("ConnBottom")
	cb.PlugIn(robBottom)
	cb.PlugIn(lower.port)

	// observation at the reorder buffer's Top port
	var accIDs []uint64
	nAccepted, nAnswers := 0, 0
	top.accepted, top.nAnswers = &nAccepted, &nAnswers
	type rawAns struct {
		msg   messaging.Msg
		cycle uint64
	}
	var raw []rawAns
	inROB := 0
	robTop.AcceptHook(hookFunc(func(ctx hooking.HookCtx) {
		msg, ok := ctx.Item.(messaging.Msg)
		if !ok {
			return
		}
		switch ctx.Pos {
		case messaging.HookPosPortMsgRetrieveIncoming:
			accIDs = append(accIDs, msg.Meta().ID)
			nAccepted++
			inROB++
			if inROB > res.MaxInROB {
				res.MaxInROB = inROB
			}
		case messaging.HookPosPortMsgSend:
			raw = append(raw, rawAns{msg, uint64(engine.CurrentTime()) / 1000})
			nAnswers++
			inROB--
		}
	}))

	top.TickLater()
	bound := uint64(100000 + 4000*n) // cycles; healthy runs need far fewer
	if err := engine.RunUntil(timing.VTimeInPicoSec(bound * 1000)); err != nil {
		panic(err)
	}
	res.Cycles = uint64(engine.CurrentTime()) / 1000
	res.BusyAtBound = res.Cycles+1 >= bound
	res.Sent = len(top.sent)
	res.Deviated = lower.deviated || lower.gaveUp

	// ---- translate into acceptance-order terms
	byID := map[uint64]int{} // original request ID -> send index (0-based)
	for g, s := range top.sent {
		byID[s.msg.Meta().ID] = g
	}
	accOf := map[uint64]int{}     // original request ID -> acceptance index (1-based)
	accByAddr := map[uint64]int{} // address -> acceptance index
	for i, id := range accIDs {
		g, ok := byID[id]
		if !ok {
			res.Accepted = append(res.Accepted, robAccepted{Send: 0, Who: "?", Kind: "?"})
			continue
		}
		s := top.sent[g]
		res.Accepted = append(res.Accepted, robAccepted{Send: g + 1, Who: s.who, Kind: s.kind, Addr: s.addr})
		accOf[id] = i + 1
		accByAddr[s.addr] = i + 1
	}
	portName := map[messaging.RemotePort]string{top.ports["A"].AsRemote(): "A", top.ports["B"].AsRemote(): "B"}
	for _, ra := range raw {
		a := robAnswer{Req: accOf[ra.msg.Meta().RspTo], Kind: kindOf(ra.msg), To: portName[ra.msg.Meta().Dst], Cycle: ra.cycle, DataReq: -1}
		if a.To == "" {
			a.To = "?"
		}
		if d, ok := ra.msg.(memprotocol.DataReadyRsp); ok {
			if len(d.Data) == 8 && d.Data[6] == robMagic0 && d.Data[7] == robMagic1 {
				a.DataReq = accByAddr[uint64(binary.LittleEndian.Uint32(d.Data))]
				a.DataPos = int(binary.LittleEndian.Uint16(d.Data[4:]))
			}
		}
		res.Answers = append(res.Answers, a)
	}
	for i, ar := range lower.arrived {
		lr := robLower{Arrival: i + 1, Req: accByAddr[ar.addr], Kind: ar.kind, Pos: ar.pos}
		// the forwarded request is the accepted one: kind, address, size / data
		if lr.Req > 0 {
			s := top.sent[res.Accepted[lr.Req-1].Send-1]
			switch f := ar.msg.(type) {
			case memprotocol.ReadReq:
				o, ok := s.msg.(memprotocol.ReadReq)
				lr.Same = ok && f.Address == o.Address && f.AccessByteSize == o.AccessByteSize && f.PID == o.PID
			case memprotocol.WriteReq:
				o, ok := s.msg.(memprotocol.WriteReq)
				lr.Same = ok && f.Address == o.Address && bytes.Equal(f.Data, o.Data) && f.PID == o.PID && len(f.DirtyMask) == len(o.DirtyMask)
			}
		}
		res.Lower = append(res.Lower, lr)
	}
	res.Received = map[string][]int{}
	for w, ids := range top.recv {
		for _, id := range ids {
			res.Received[w] = append(res.Received[w], accOf[id])
		}
	}
	return res
}

func init() {
	reg.Register("rob", func(rawIn json.RawMessage) (any, error) {
		var in robInput
		if err := json.Unmarshal(rawIn, &in); err != nil {
			return nil, err
		}
		out := robOutput{Cases: len(in.Cases)}
		for i := range in.Cases {
			c := &in.Cases[i]
			res, ok := watchdog(2*caseWallLimit, func() robResult { return runROBCase(c) })
			if !ok {
				out.Results = append(out.Results, robResult{Panic: "the engine did not return within the wall-time limit (a handler never returns)"})
				out.Aborted = true
				break
			}
			out.Results = append(out.Results, res)
		}
		return out, nil
	})
}
