// Package memagents1 holds the drivers for C23 (data mover) and C21 (reorder
// buffer). Both assemble small real simulations (serial engine, components
// from their exported builders, direct connections) around the component
// under test and report what was observed at its ports / in the memories.
package memagents1

import (
	"encoding/json"
	"fmt"
	"time"

	"github.com/sarchlab/akita/v5/hooking"
	"github.com/sarchlab/akita/v5/mem"
	"github.com/sarchlab/akita/v5/mem/datamover"
	"github.com/sarchlab/akita/v5/mem/datamoverprotocol"
	"github.com/sarchlab/akita/v5/mem/idealmemcontroller"
	"github.com/sarchlab/akita/v5/mem/memprotocol"
	"github.com/sarchlab/akita/v5/messaging"
	"github.com/sarchlab/akita/v5/modeling"
	"github.com/sarchlab/akita/v5/noc/directconnection"
	"github.com/sarchlab/akita/v5/timing"

	"verif/harness/internal/reg"
)

// ---------------------------------------------------------------- input / output

// dmReq is one move request of a DataMover.tla behaviour, in abstract cells.
type dmReq struct {
	Src   string `json:"src"`   // "inside" | "outside"
	Dst   string `json:"dst"`   // "inside" | "outside"
	SA    uint64 `json:"sa"`    // source address
	DA    uint64 `json:"da"`    // destination address
	Size  uint64 `json:"size"`  // bytes
	After int    `json:"after"` // sent once this many acknowledgments were received
}

// dmCase is one behaviour: configuration, requests, and the memories the
// specification expects at each acknowledgment (provenance code per abstract
// cell: side*N + address of the preloaded cell whose content it holds).
type dmCase struct {
	IG      uint64    `json:"ig"`
	OG      uint64    `json:"og"`
	Buf     uint64    `json:"buf"`
	N       uint64    `json:"n"`     // abstract cells per memory
	Scale   uint64    `json:"scale"` // real bytes per abstract cell
	Reqs    []dmReq   `json:"reqs"`
	Exp     [][][]int `json:"exp"` // exp[k][side][cell] after acknowledgment k
	LatIn   int       `json:"lat_in"`
	LatOut  int       `json:"lat_out"`
	PortBuf int       `json:"port_buf"`
	Seed    uint64    `json:"seed"`
}

type dmInput struct {
	Cases []dmCase `json:"cases"`
}

// dmFailure describes the first contradiction observed in a case.
type dmFailure struct {
	Req          int      `json:"req"` // 0-based index of the request concerned
	Symptom      string   `json:"symptom"`
	WrongInRange int      `json:"wrong_in_range"`
	AfterRange   int      `json:"after_range"` // changed bytes of the destination side in [da+size, da+size+src granule+dst granule)
	Elsewhere    int      `json:"elsewhere"`
	First        []string `json:"first,omitempty"`
	Detail       string   `json:"detail,omitempty"`
	Stranded     int      `json:"stranded"` // messages left in any port at quiescence
}

type dmResult struct {
	Acks        int        `json:"acks"`
	Cycles      uint64     `json:"cycles"`
	Reads       int        `json:"reads"`
	Writes      int        `json:"writes"`
	BusyAtBound bool       `json:"busy_at_bound"`
	Failure     *dmFailure `json:"failure,omitempty"`
}

type dmOutput struct {
	Cases   int        `json:"cases"`
	Results []dmResult `json:"results"`
	Aborted bool       `json:"aborted"` // the last result is a case that never returned; later cases were not run
}

// ---------------------------------------------------------------- helpers

const dmCapacity = 8192 // bytes per storage; everything is preloaded and compared

const dmCycleBound = 3000 // simulated cycles after which a run is cut off

func preload(seed uint64, side int, addr uint64) byte {
	x := seed*0x9E3779B97F4A7C15 + uint64(side+1)*0xBF58476D1CE4E5B9 + addr*0x94D049BB133111EB
	x ^= x >> 30
	x *= 0xBF58476D1CE4E5B9
	x ^= x >> 27
	x *= 0x94D049BB133111EB
	x ^= x >> 31
	return byte(x)
}

func sideIndex(s string) int {
	if s == "outside" {
		return 1
	}
	return 0
}

type hookFunc func(ctx hooking.HookCtx)

func (h hookFunc) Func(ctx hooking.HookCtx) { h(ctx) }

// requester is the agent above the data mover: a ticking component that sends
// the scripted requests and collects acknowledgments.
type requester struct {
	*modeling.Component[struct{}, struct{}, modeling.None]
	port    messaging.Port
	dmTop   messaging.RemotePort
	c       *dmCase
	sent    int
	ids     []uint64
	acks    []datamoverprotocol.DataMoveResponse
	foreign []string
}

type reqMW struct{ r *requester }

func (m *reqMW) Tick() bool {
	r := m.r
	progress := false
	for {
		msg := r.port.RetrieveIncoming()
		if msg == nil {
			break
		}
		progress = true
		if rsp, ok := msg.(datamoverprotocol.DataMoveResponse); ok {
			r.acks = append(r.acks, rsp)
		} else {
			r.foreign = append(r.foreign, fmt.Sprintf("%T", msg))
		}
	}
	for r.sent < len(r.c.Reqs) && r.c.Reqs[r.sent].After <= len(r.acks) {
		if !r.port.CanSend() {
			break
		}
		q := r.c.Reqs[r.sent]
		req := datamoverprotocol.DataMoveRequest{
			SrcAddress: q.SA * r.c.Scale, DstAddress: q.DA * r.c.Scale, ByteSize: q.Size * r.c.Scale,
			SrcSide: datamoverprotocol.DataMovePort(q.Src), DstSide: datamoverprotocol.DataMovePort(q.Dst),
		}
		req.ID = timing.GetIDGenerator().Generate()
		req.Src = r.port.AsRemote()
		req.Dst = r.dmTop
		req.TrafficClass = "datamoverprotocol.DataMoveRequest"
		r.ids = append(r.ids, req.ID)
		r.port.Send(req)
		r.sent++
		progress = true
	}
	return progress
}

type memAccess struct {
	phase int
	write bool
	side  int
	addr  uint64
	n     uint64
}

func runDMCase(c *dmCase) (res dmResult) {
	defer func() {
		if p := recover(); p != nil {
			res.Failure = &dmFailure{Req: res.Acks, Symptom: "panic", Detail: fmt.Sprint(p)}
		}
	}()
	if c.Scale == 0 {
		c.Scale = 1
	}
	if c.PortBuf == 0 {
		c.PortBuf = 8
	}
	K := c.Scale
	engine := timing.NewSerialEngine()
	regr := modeling.NewStandaloneRegistrar(engine)

	storages := [2]*mem.Storage{mem.NewStorage(dmCapacity), mem.NewStorage(dmCapacity)}
	for s := 0; s < 2; s++ {
		buf := make([]byte, dmCapacity)
		for a := range buf {
			buf[a] = preload(c.Seed, s, uint64(a))
		}
		if err := storages[s].Write(0, buf); err != nil {
			panic(err)
		}
	}
	mkMem := func(name string, st *mem.Storage, lat int) *idealmemcontroller.Comp {
		sp := idealmemcontroller.DefaultSpec()
		sp.Latency = lat
		sp.Width = 2
		sp.Capacity = dmCapacity
		m := idealmemcontroller.MakeBuilder().WithRegistrar(regr).WithSpec(sp).
			WithResources(idealmemcontroller.Resources{Storage: st}).Build(name)
		m.AssignPort("Top", messaging.NewPort(m, 16, 16, name+".Top"))
		m.AssignPort("Control", messaging.NewPort(m, 2, 2, name+".Control"))
		return m
	}
	if c.LatIn == 0 {
		c.LatIn = 2
	}
	if c.LatOut == 0 {
		c.LatOut = 3
	}
	inMem := mkMem("InsideMem", storages[0], c.LatIn)
	outMem := mkMem("OutsideMem", storages[1], c.LatOut)

	spec := datamover.DefaultSpec()
	spec.BufferSize = c.Buf * K
	spec.InsideByteGranularity = c.IG * K
	spec.OutsideByteGranularity = c.OG * K
	dm := datamover.MakeBuilder().WithRegistrar(regr).WithSpec(spec).
		WithResources(datamover.Resources{
			InsideMapper:  &mem.SinglePortMapper{Port: inMem.GetPortByName("Top").AsRemote()},
			OutsideMapper: &mem.SinglePortMapper{Port: outMem.GetPortByName("Top").AsRemote()},
		}).Build("DataMover")
	for _, n := range []string{"Top", "Inside", "Outside", "Control"} {
		dm.AssignPort(n, modeling.MakePortBuilder().WithRegistrar(regr).WithComponent(dm).
			WithSpec(modeling.PortSpec{BufSize: c.PortBuf}).Build(n))
	}

	rq := &requester{c: c, dmTop: dm.GetPortByName("Top").AsRemote()}
	rq.Component = modeling.NewBuilder[struct{}, struct{}, modeling.None]().
		WithEngine(engine).WithFreq(1 * timing.GHz).WithSpec(struct{}{}).Build("Requester")
	rq.AddMiddleware(&reqMW{r: rq})
	rq.DeclarePort("Out", datamoverprotocol.Requester)
	rq.port = messaging.NewPort(rq, 8, 8, "Requester.Out")
	rq.AssignPort("Out", rq.port)

	// three direct connections: control, inside, outside
	mkConn := func(name string, ports ...messaging.Port) {
		cn := directconnection.MakeBuilder().WithRegistrar(regr).Build(name)
		for _, p := range ports {
			cn.PlugIn(p)
		}
	}
	mkConn("ConnTop", rq.port, dm.GetPortByName("Top"))
	mkConn("ConnIn", dm.GetPortByName("Inside"), inMem.GetPortByName("Top"))
	mkConn("ConnOut", dm.GetPortByName("Outside"), outMem.GetPortByName("Top"))

	// observation: a snapshot of both memories at the instant the data mover
	// sends each acknowledgment, and every memory request it issues.
	var snaps [][2][]byte
	var accesses []memAccess
	dm.GetPortByName("Top").AcceptHook(hookFunc(func(ctx hooking.HookCtx) {
		if ctx.Pos != messaging.HookPosPortMsgSend {
			return
		}
		if _, ok := ctx.Item.(datamoverprotocol.DataMoveResponse); !ok {
			return
		}
		var s [2][]byte
		for i := 0; i < 2; i++ {
			b, err := storages[i].Read(0, dmCapacity)
			if err != nil {
				panic(err)
			}
			s[i] = b
		}
		snaps = append(snaps, s)
	}))
	for i, pn := range []string{"Inside", "Outside"} {
		side := i
		dm.GetPortByName(pn).AcceptHook(hookFunc(func(ctx hooking.HookCtx) {
			if ctx.Pos != messaging.HookPosPortMsgSend {
				return
			}
			switch m := ctx.Item.(type) {
			case memprotocol.ReadReq:
				accesses = append(accesses, memAccess{len(snaps), false, side, m.Address, m.AccessByteSize})
			case memprotocol.WriteReq:
				accesses = append(accesses, memAccess{len(snaps), true, side, m.Address, uint64(len(m.Data))})
			}
		}))
	}

	rq.TickLater()
	// a healthy run takes a few hundred cycles; a mover that never settles is cut off
	if err := engine.RunUntil(dmCycleBound * 1000); err != nil {
		panic(err)
	}
	res.Cycles = uint64(engine.CurrentTime()) / 1000
	res.BusyAtBound = res.Cycles+1 >= dmCycleBound
	res.Acks = len(rq.acks)
	for _, a := range accesses {
		if a.write {
			res.Writes++
		} else {
			res.Reads++
		}
	}

	stranded := 0
	for _, pc := range []messaging.PortOwner{dm, inMem, outMem, rq} {
		for _, p := range pc.Ports() {
			stranded += p.NumIncoming() + p.NumOutgoing()
		}
	}

	expByte := func(k int, side int, x uint64) byte {
		if x >= c.N*K {
			return preload(c.Seed, side, x)
		}
		code := uint64(c.Exp[k][side][x/K])
		return preload(c.Seed, int(code/c.N), (code%c.N)*K+x%K)
	}

	// 1. acknowledgments: one per request, in request order, right RspTo / Dst
	for k := range c.Reqs {
		q := c.Reqs[k]
		dstG, srcG := c.IG, c.IG
		if q.Dst == "outside" {
			dstG = c.OG
		}
		if q.Src == "outside" {
			srcG = c.OG
		}
		if k >= len(snaps) || k >= len(rq.acks) {
			res.Failure = &dmFailure{Req: k, Symptom: "never_acknowledged", Stranded: stranded,
				Detail: fmt.Sprintf("run %s at cycle %d with %d of %d acknowledgments (sent by mover: %d)", map[bool]string{false: "quiesced", true: "cut off, still busy"}[res.BusyAtBound], res.Cycles, len(rq.acks), len(c.Reqs), len(snaps))}
			return res
		}
		ack := rq.acks[k]
		if ack.RspTo != rq.ids[k] || ack.Dst != rq.port.AsRemote() {
			res.Failure = &dmFailure{Req: k, Symptom: "wrong_acknowledgment",
				Detail: fmt.Sprintf("ack %d answers id %d (want %d) dst %s", k, ack.RspTo, rq.ids[k], ack.Dst)}
			return res
		}
		// 2. memories at acknowledgment k
		f := dmFailure{Req: k}
		ds := sideIndex(q.Dst)
		lo, hi := q.DA*K, (q.DA+q.Size)*K
		// bytes right behind the range that an unclamped last granule could reach
		tailEnd := hi + (srcG+dstG)*K
		for s := 0; s < 2; s++ {
			for x := uint64(0); x < dmCapacity; x++ {
				got, want := snaps[k][s][x], expByte(k, s, x)
				if got == want {
					continue
				}
				switch {
				case s == ds && x >= lo && x < hi:
					f.WrongInRange++
				case s == ds && x >= hi && x < tailEnd:
					f.AfterRange++
				default:
					f.Elsewhere++
				}
				if len(f.First) < 6 {
					f.First = append(f.First, fmt.Sprintf("%s[%d]=%#02x want %#02x", []string{"inside", "outside"}[s], x, got, want))
				}
			}
		}
		if f.WrongInRange+f.AfterRange+f.Elsewhere > 0 {
			switch {
			case f.WrongInRange == 0 && f.Elsewhere == 0:
				f.Symptom = "bytes_after_range_overwritten"
			case f.WrongInRange > 0 && f.AfterRange == 0 && f.Elsewhere == 0:
				f.Symptom = "destination_range_wrong"
			default:
				f.Symptom = "memory_wrong"
			}
			res.Failure = &f
			return res
		}
	}
	if len(snaps) > len(c.Reqs) || len(rq.acks) > len(c.Reqs) || len(rq.foreign) > 0 {
		res.Failure = &dmFailure{Req: len(c.Reqs) - 1, Symptom: "extra_acknowledgment",
			Detail: fmt.Sprintf("%d acknowledgments for %d requests; foreign %v", len(rq.acks), len(c.Reqs), rq.foreign)}
		return res
	}
	// 3. the memories only change through moves: nothing changes after the last acknowledgment
	if n := len(c.Reqs); n > 0 {
		for s := 0; s < 2; s++ {
			b, _ := storages[s].Read(0, dmCapacity)
			for x := range b {
				if b[x] != snaps[n-1][s][x] {
					res.Failure = &dmFailure{Req: n - 1, Symptom: "memory_changed_after_acknowledgment",
						Detail: fmt.Sprintf("side %d byte %d", s, x)}
					return res
				}
			}
		}
	}
	return res
}

// watchdog runs f; if it does not return within the wall-clock limit (a handler of the
// component under test that never returns) ok is false and the caller must stop: the
// stuck goroutine cannot be cancelled, so the process has to end.
func watchdog[T any](limit time.Duration, f func() T) (res T, ok bool) {
	ch := make(chan T, 1)
	go func() { ch <- f() }()
	select {
	case res = <-ch:
		return res, true
	case <-time.After(limit):
		return res, false
	}
}

const caseWallLimit = 15 * time.Second

func init() {
	reg.Register("datamover", func(raw json.RawMessage) (any, error) {
		var in dmInput
		if err := json.Unmarshal(raw, &in); err != nil {
			return nil, err
		}
		out := dmOutput{Cases: len(in.Cases)}
		for i := range in.Cases {
			c := &in.Cases[i]
			res, ok := watchdog(caseWallLimit, func() dmResult { return runDMCase(c) })
			if !ok {
				// results stop here; the caller resumes with the remaining cases in a new process
				out.Results = append(out.Results, dmResult{Failure: &dmFailure{Symptom: "simulation_does_not_return",
					Detail: fmt.Sprintf("the engine did not return within %s of wall time", caseWallLimit)}})
				out.Aborted = true
				break
			}
			out.Results = append(out.Results, res)
		}
		return out, nil
	})
}
