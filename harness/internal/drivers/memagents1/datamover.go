// Package memagents1 holds the drivers for C23 (data mover) and C21 (reorder
// buffer). Both assemble small real simulations (serial engine, components
// from their exported builders, direct connections) around the component
// under test and report what was observed at its ports / in the memories.
package memagents1

import (
	"encoding/json"
	"fmt"
	"math/rand"
	"time"

	"github.com/sarchlab/akita/v5/hooking"
	"github.com/sarchlab/akita/v5/mem"
	"github.com/sarchlab/akita/v5/mem/datamover"
	"github.com/sarchlab/akita/v5/mem/datamoverprotocol"
	"github.com/sarchlab/akita/v5/mem/idealmemcontroller"
	"github.com/sarchlab/akita/v5/mem/memprotocol"
	"github.com/sarchlab/akita/v5/messaging"
	"github.com/sarchlab/akita/v5/modeling"
	"github.com/sarchlab/akita/v5/noc/directconnection"
	"github.com/sarchlab/akita/v5/timing"

	"verif/harness/internal/reg"
)

// ---------------------------------------------------------------- input / output

// dmReq is one move request of a DataMover.tla behaviour, in abstract cells.
type dmReq struct {
	Src   string `json:"src"`   // "inside" | "outside"
	Dst   string `json:"dst"`   // "inside" | "outside"
	SA    uint64 `json:"sa"`    // source address
	DA    uint64 `json:"da"`    // destination address
	Size  uint64 `json:"size"`  // bytes
	After int    `json:"after"` // sent once this many acknowledgments were received
}

// dmCase is one behaviour: configuration, requests, and the memories the
// specification expects at each acknowledgment (provenance code per abstract
// cell: side*N + address of the preloaded cell whose content it holds).
type dmCase struct {
	IG      uint64    `json:"ig"`
	OG      uint64    `json:"og"`
	Buf     uint64    `json:"buf"`
	N       uint64    `json:"n"`     // abstract cells per memory
	Scale   uint64    `json:"scale"` // real bytes per abstract cell
	Reqs    []dmReq   `json:"reqs"`
	Exp     [][][]int `json:"exp"` // exp[k][side][cell] after acknowledgment k
	LatIn   int       `json:"lat_in"`
	LatOut  int       `json:"lat_out"`
	PortBuf int       `json:"port_buf"`
	Seed    uint64    `json:"seed"`
	// what serves each side: "ideal" (one idealmemcontroller, in-order), "interleaved" (two
	// idealmemcontrollers with different latencies behind an interleaved mapper, granule by
	// granule) or "stub" (memStub: seeded per-request delays, completions permuted)
	MemIn   string `json:"mem_in"`
	MemOut  string `json:"mem_out"`
	Lat2In  int    `json:"lat2_in"`  // latency of the second interleaved module
	Lat2Out int    `json:"lat2_out"` // latency of the second interleaved module
	StubMax int    `json:"stub_max"` // memStub: delays are 1..StubMax cycles
}

type dmInput struct {
	Cases []dmCase `json:"cases"`
}

// dmFailure describes the first contradiction observed in a case.
type dmFailure struct {
	Req          int      `json:"req"` // 0-based index of the request concerned
	Symptom      string   `json:"symptom"`
	WrongInRange int      `json:"wrong_in_range"`
	AfterRange   int      `json:"after_range"` // changed bytes of the destination side in [da+size, da+size+src granule+dst granule)
	Elsewhere    int      `json:"elsewhere"`
	First        []string `json:"first,omitempty"`
	Detail       string   `json:"detail,omitempty"`
	Stranded     int      `json:"stranded"` // messages left in any port at quiescence
}

type dmResult struct {
	Acks        int        `json:"acks"`
	Cycles      uint64     `json:"cycles"`
	Reads       int        `json:"reads"`
	Writes      int        `json:"writes"`
	BusyAtBound bool       `json:"busy_at_bound"`
	Failure     *dmFailure `json:"failure,omitempty"`
}

type dmOutput struct {
	Cases   int        `json:"cases"`
	Results []dmResult `json:"results"`
	Aborted bool       `json:"aborted"` // the last result is a case that never returned; later cases were not run
}

// ---------------------------------------------------------------- helpers

const dmCapacity = 8192 // bytes per storage; everything is preloaded and compared

const dmCycleBound = 3000 // simulated cycles after which a run is cut off

func preload(seed uint64, side int, addr uint64) byte {
	x := seed*0x9E3779B97F4A7C15 + uint64(side+1)*0xBF58476D1CE4E5B9 + addr*0x94D049BB133111EB
	x ^= x >> 30
	x *= 0xBF58476D1CE4E5B9
	x ^= x >> 27
	x *= 0x94D049BB133111EB
	x ^= x >> 31
	return byte(x)
}

func sideIndex(s string) int {
	if s == "outside" {
		return 1
	}
	return 0
}

type hookFunc func(ctx hooking.HookCtx)

func (h hookFunc) Func(ctx hooking.HookCtx) { h(ctx) }

// requester is the agent above the data mover: a ticking component that sends
// the scripted requests and collects acknowledgments.
type requester struct {
	*modeling.Component[struct{}, struct{}, modeling.None]
	port    messaging.Port
	dmTop   messaging.RemotePort
	c       *dmCase
	sent    int
	ids     []uint64
	acks    []datamoverprotocol.DataMoveResponse
	foreign []string
}

type reqMW struct{ r *requester }

func (m *reqMW) Tick() bool {
	r := m.r
	progress := false
	for {
		msg := r.port.RetrieveIncoming()
		if msg == nil {
			break
		}
		progress = true
		if rsp, ok := msg.(datamoverprotocol.DataMoveResponse); ok {
			r.acks = append(r.acks, rsp)
		} else {
			r.foreign = append(r.foreign, fmt.Sprintf("%T", msg))
		}
	}
	for r.sent < len(r.c.Reqs) && r.c.Reqs[r.sent].After <= len(r.acks) {
		if !r.port.CanSend() {
			break
		}
		q := r.c.Reqs[r.sent]
		req := datamoverprotocol.DataMoveRequest{
			SrcAddress: q.SA * r.c.Scale, DstAddress: q.DA * r.c.Scale, ByteSize: q.Size * r.c.Scale,
			SrcSide: datamoverprotocol.DataMovePort(q.Src), DstSide: datamoverprotocol.DataMovePort(q.Dst),
		}
		req.ID = timing.GetIDGenerator().Generate()
		req.Src = r.port.AsRemote()
		req.Dst = r.dmTop
		req.TrafficClass = "datamoverprotocol.DataMoveRequest"
		r.ids = append(r.ids, req.ID)
		r.port.Send(req)
		r.sent++
		progress = true
	}
	return progress
}

// memStub is a memory the harness owns: it holds a storage, takes every request from its
// port at once and answers it after a seeded per-request delay, so that completions are
// permuted with respect to issue order. Data is read / written at response time. Accesses
// to overlapping bytes keep their arrival order (as any real memory does).
type stubReq struct {
	msg   messaging.Msg
	lo, n uint64
	due   uint64
}

type memStub struct {
	*modeling.Component[struct{}, struct{}, modeling.None]
	port    messaging.Port
	st      *mem.Storage
	rng     *rand.Rand
	max     int
	pending []*stubReq
	engine  timing.Engine
}

type stubMW struct{ m *memStub }

func (w *stubMW) Tick() bool {
	m := w.m
	now := uint64(m.engine.CurrentTime()) / 1000
	for {
		msg := m.port.RetrieveIncoming()
		if msg == nil {
			break
		}
		r := &stubReq{msg: msg, due: now + 1 + uint64(m.rng.Intn(m.max))}
		switch q := msg.(type) {
		case memprotocol.ReadReq:
			r.lo, r.n = q.Address, q.AccessByteSize
		case memprotocol.WriteReq:
			r.lo, r.n = q.Address, uint64(len(q.Data))
		default:
			panic(fmt.Sprintf("memStub: unexpected %T", msg))
		}
		m.pending = append(m.pending, r)
	}
	var rest []*stubReq
	for _, r := range m.pending {
		blocked := r.due > now || !m.port.CanSend()
		for _, e := range rest { // an earlier request on overlapping bytes is still waiting
			if e.lo < r.lo+r.n && r.lo < e.lo+e.n {
				blocked = true
			}
		}
		if blocked {
			rest = append(rest, r)
			continue
		}
		switch q := r.msg.(type) {
		case memprotocol.ReadReq:
			data, err := m.st.Read(q.Address, q.AccessByteSize)
			if err != nil {
				panic(err)
			}
			rsp := memprotocol.DataReadyRsp{Data: data}
			rsp.ID = timing.GetIDGenerator().Generate()
			rsp.Src, rsp.Dst, rsp.RspTo = m.port.AsRemote(), q.Src, q.ID
			rsp.TrafficBytes = len(data) + 4
			rsp.TrafficClass = "memprotocol.DataReadyRsp"
			m.port.Send(rsp)
		case memprotocol.WriteReq:
			data := q.Data
			if q.DirtyMask != nil {
				old, err := m.st.Read(q.Address, uint64(len(q.Data)))
				if err != nil {
					panic(err)
				}
				for i := range old {
					if q.DirtyMask[i] {
						old[i] = q.Data[i]
					}
				}
				data = old
			}
			if err := m.st.Write(q.Address, data); err != nil {
				panic(err)
			}
			rsp := memprotocol.WriteDoneRsp{}
			rsp.ID = timing.GetIDGenerator().Generate()
			rsp.Src, rsp.Dst, rsp.RspTo = m.port.AsRemote(), q.Src, q.ID
			rsp.TrafficBytes = 4
			rsp.TrafficClass = "memprotocol.WriteDoneRsp"
			m.port.Send(rsp)
		}
	}
	m.pending = rest
	return len(m.pending) > 0
}

type memAccess struct {
	phase int
	write bool
	side  int
	addr  uint64
	n     uint64
}

func runDMCase(c *dmCase) (res dmResult) {
	defer func() {
		if p := recover(); p != nil {
			res.Failure = &dmFailure{Req: res.Acks, Symptom: "panic", Detail: fmt.Sprint(p)}
		}
	}()
	if c.Scale == 0 {
		c.Scale = 1
	}
	if c.PortBuf == 0 {
		c.PortBuf = 8
	}
	K := c.Scale
	engine := timing.NewSerialEngine()
	regr := modeling.NewStandaloneRegistrar(engine)

	storages := [2]*mem.Storage{mem.NewStorage(dmCapacity), mem.NewStorage(dmCapacity)}
	for s := 0; s < 2; s++ {
		buf := make([]byte, dmCapacity)
		for a := range buf {
			buf[a] = preload(c.Seed, s, uint64(a))
		}
		if err := storages[s].Write(0, buf); err != nil {
			panic(err)
		}
	}
	mkMem := func(name string, st *mem.Storage, lat int) *idealmemcontroller.Comp {
		sp := idealmemcontroller.DefaultSpec()
		sp.Latency = lat
		sp.Width = 2
		sp.Capacity = dmCapacity
		m := idealmemcontroller.MakeBuilder().WithRegistrar(regr).WithSpec(sp).
			WithResources(idealmemcontroller.Resources{Storage: st}).Build(name)
		m.AssignPort("Top", messaging.NewPort(m, 16, 16, name+".Top"))
		m.AssignPort("Control", messaging.NewPort(m, 2, 2, name+".Control"))
		return m
	}
	if c.LatIn == 0 {
		c.LatIn = 2
	}
	if c.LatOut == 0 {
		c.LatOut = 3
	}
	// one side: its memory modules' Top ports and the mapper the data mover uses for it
	mkSide := func(name, kind string, st *mem.Storage, lat, lat2 int, gran uint64) ([]messaging.Port, mem.AddressToPortMapper) {
		switch kind {
		case "interleaved":
			if lat2 == 0 {
				lat2 = lat + 4
			}
			a := mkMem(name+"Mem0", st, lat).GetPortByName("Top")
			b := mkMem(name+"Mem1", st, lat2).GetPortByName("Top")
			return []messaging.Port{a, b}, &mem.InterleavedAddressPortMapper{
				InterleavingSize: gran, LowModules: []messaging.RemotePort{a.AsRemote(), b.AsRemote()}}
		case "stub":
			m := &memStub{st: st, rng: rand.New(rand.NewSource(int64(c.Seed*7919) + int64(len(name)))), max: c.StubMax, engine: engine}
			if m.max <= 0 {
				m.max = 9
			}
			m.Component = modeling.NewBuilder[struct{}, struct{}, modeling.None]().
				WithEngine(engine).WithFreq(1 * timing.GHz).WithSpec(struct{}{}).Build(name + "Stub")
			m.AddMiddleware(&stubMW{m: m})
			m.DeclarePort("Top", memprotocol.Responder)
			m.port = messaging.NewPort(m, 16, 16, name+"Stub.Top")
			m.AssignPort("Top", m.port)
			return []messaging.Port{m.port}, &mem.SinglePortMapper{Port: m.port.AsRemote()}
		default:
			p := mkMem(name+"Mem", st, lat).GetPortByName("Top")
			return []messaging.Port{p}, &mem.SinglePortMapper{Port: p.AsRemote()}
		}
	}
	inPorts, inMapper := mkSide("Inside", c.MemIn, storages[0], c.LatIn, c.Lat2In, c.IG*K)
	outPorts, outMapper := mkSide("Outside", c.MemOut, storages[1], c.LatOut, c.Lat2Out, c.OG*K)

	spec := datamover.DefaultSpec()
	spec.BufferSize = c.Buf * K
	spec.InsideByteGranularity = c.IG * K
	spec.OutsideByteGranularity = c.OG * K
	dm := datamover.MakeBuilder().WithRegistrar(regr).WithSpec(spec).
		WithResources(datamover.Resources{InsideMapper: inMapper, OutsideMapper: outMapper}).Build("DataMover")
	for _, n := range []string{"Top", "Inside", "Outside", "Control"} {
		dm.AssignPort(n, modeling.MakePortBuilder().WithRegistrar(regr).WithComponent(dm).
			WithSpec(modeling.PortSpec{BufSize: c.PortBuf}).Build(n))
	}

	rq := &requester{c: c, dmTop: dm.GetPortByName("Top").AsRemote()}
	rq.Component = modeling.NewBuilder[struct{}, struct{}, modeling.None]().
		WithEngine(engine).WithFreq(1 * timing.GHz).WithSpec(struct{}{}).Build("Requester")
	rq.AddMiddleware(&reqMW{r: rq})
	rq.DeclarePort("Out", datamoverprotocol.Requester)
	rq.port = messaging.NewPort(rq, 8, 8, "Requester.Out")
	rq.AssignPort("Out", rq.port)

	// three direct connections: control, inside, outside
	mkConn := func(name string, ports ...messaging.Port) {
		cn := directconnection.MakeBuilder().WithRegistrar(regr).Build(name)
		for _, p := range ports {
			cn.PlugIn(p)
		}
	}
	mkConn("ConnTop", rq.port, dm.GetPortByName("Top"))
	mkConn("ConnIn", append([]messaging.Port{dm.GetPortByName("Inside")}, inPorts...)...)
	mkConn("ConnOut", append([]messaging.Port{dm.GetPortByName("Outside")}, outPorts...)...)

	// observation: a snapshot of both memories at the instant the data mover
	// sends each acknowledgment, and every memory request it issues.
	var snaps [][2][]byte
	var accesses []memAccess
	dm.GetPortByName("Top").AcceptHook(hookFunc(func(ctx hooking.HookCtx) {
		if ctx.Pos != messaging.HookPosPortMsgSend {
			return
		}
		if _, ok := ctx.Item.(datamoverprotocol.DataMoveResponse); !ok {
			return
		}
		var s [2][]byte
		for i := 0; i < 2; i++ {
			b, err := storages[i].Read(0, dmCapacity)
			if err != nil {
				panic(err)
			}
			s[i] = b
		}
		snaps = append(snaps, s)
	}))
	for i, pn := range []string{"Inside", "Outside"} {
		side := i
		dm.GetPortByName(pn).AcceptHook(hookFunc(func(ctx hooking.HookCtx) {
			if ctx.Pos != messaging.HookPosPortMsgSend {
				return
			}
			switch m := ctx.Item.(type) {
			case memprotocol.ReadReq:
				accesses = append(accesses, memAccess{len(snaps), false, side, m.Address, m.AccessByteSize})
			case memprotocol.WriteReq:
				accesses = append(accesses, memAccess{len(snaps), true, side, m.Address, uint64(len(m.Data))})
			}
		}))
	}

	rq.TickLater()
	// a healthy run takes a few hundred cycles; a mover that never settles is cut off
	if err := engine.RunUntil(dmCycleBound * 1000); err != nil {
		panic(err)
	}
	res.Cycles = uint64(engine.CurrentTime()) / 1000
	res.BusyAtBound = res.Cycles+1 >= dmCycleBound
	res.Acks = len(rq.acks)
	for _, a := range accesses {
		if a.write {
			res.Writes++
		} else {
			res.Reads++
		}
	}

	stranded := 0
	for _, pc := range []messaging.PortOwner{dm, rq} {
		for _, p := range pc.Ports() {
			stranded += p.NumIncoming() + p.NumOutgoing()
		}
	}
	for _, p := range append(append([]messaging.Port{}, inPorts...), outPorts...) {
		stranded += p.NumIncoming() + p.NumOutgoing()
	}

	expByte := func(k int, side int, x uint64) byte {
		if x >= c.N*K {
			return preload(c.Seed, side, x)
		}
		code := uint64(c.Exp[k][side][x/K])
		return preload(c.Seed, int(code/c.N), (code%c.N)*K+x%K)
	}

	// 1. acknowledgments: one per request, in request order, right RspTo / Dst
	for k := range c.Reqs {
		q := c.Reqs[k]
		dstG, srcG := c.IG, c.IG
		if q.Dst == "outside" {
			dstG = c.OG
		}
		if q.Src == "outside" {
			srcG = c.OG
		}
		if k >= len(snaps) || k >= len(rq.acks) {
			res.Failure = &dmFailure{Req: k, Symptom: "never_acknowledged", Stranded: stranded,
				Detail: fmt.Sprintf("run %s at cycle %d with %d of %d acknowledgments (sent by mover: %d)", map[bool]string{false: "quiesced", true: "cut off, still busy"}[res.BusyAtBound], res.Cycles, len(rq.acks), len(c.Reqs), len(snaps))}
			return res
		}
		ack := rq.acks[k]
		if ack.RspTo != rq.ids[k] || ack.Dst != rq.port.AsRemote() {
			res.Failure = &dmFailure{Req: k, Symptom: "wrong_acknowledgment",
				Detail: fmt.Sprintf("ack %d answers id %d (want %d) dst %s", k, ack.RspTo, rq.ids[k], ack.Dst)}
			return res
		}
		// 2. memories at acknowledgment k
		f := dmFailure{Req: k}
		ds := sideIndex(q.Dst)
		lo, hi := q.DA*K, (q.DA+q.Size)*K
		// bytes right behind the range that an unclamped last granule could reach
		tailEnd := hi + (srcG+dstG)*K
		for s := 0; s < 2; s++ {
			for x := uint64(0); x < dmCapacity; x++ {
				got, want := snaps[k][s][x], expByte(k, s, x)
				if got == want {
					continue
				}
				switch {
				case s == ds && x >= lo && x < hi:
					f.WrongInRange++
				case s == ds && x >= hi && x < tailEnd:
					f.AfterRange++
				default:
					f.Elsewhere++
				}
				if len(f.First) < 6 {
					f.First = append(f.First, fmt.Sprintf("%s[%d]=%#02x want %#02x", []string{"inside", "outside"}[s], x, got, want))
				}
			}
		}
		if f.WrongInRange+f.AfterRange+f.Elsewhere > 0 {
			switch {
			case f.WrongInRange == 0 && f.Elsewhere == 0:
				f.Symptom = "bytes_after_range_overwritten"
			case f.WrongInRange > 0 && f.AfterRange == 0 && f.Elsewhere == 0:
				f.Symptom = "destination_range_wrong"
			default:
				f.Symptom = "memory_wrong"
			}
			res.Failure = &f
			return res
		}
	}
	if len(snaps) > len(c.Reqs) || len(rq.acks) > len(c.Reqs) || len(rq.foreign) > 0 {
		res.Failure = &dmFailure{Req: len(c.Reqs) - 1, Symptom: "extra_acknowledgment",
			Detail: fmt.Sprintf("%d acknowledgments for %d requests; foreign %v", len(rq.acks), len(c.Reqs), rq.foreign)}
		return res
	}
	// 3. the memories only change through moves: nothing changes after the last acknowledgment
	if n := len(c.Reqs); n > 0 {
		for s := 0; s < 2; s++ {
			b, _ := storages[s].Read(0, dmCapacity)
			for x := range b {
				if b[x] != snaps[n-1][s][x] {
					res.Failure = &dmFailure{Req: n - 1, Symptom: "memory_changed_after_acknowledgment",
						Detail: fmt.Sprintf("side %d byte %d", s, x)}
					return res
				}
			}
		}
	}
	return res
}

// watchdog runs f; if it does not return within the wall-clock limit (a handler of the
// component under test that never returns) ok is false and the caller must stop: the
// stuck goroutine cannot be cancelled, so the process has to end.
func watchdog[T any](limit time.Duration, f func() T) (res T, ok bool) {
	ch := make(chan T, 1)
	go func() { ch <- f() }()
	select {
	case res = <-ch:
		return res, true
	case <-time.After(limit):
		return res, false
	}
}

const caseWallLimit = 15 * time.Second

func init() {
	reg.Register("datamover", func(raw json.RawMessage) (any, error) {
		var in dmInput
		if err := json.Unmarshal(raw, &in); err != nil {
			return nil, err
		}
		out := dmOutput{Cases: len(in.Cases)}
		for i := range in.Cases {
			c := &in.Cases[i]
			res, ok := watchdog(caseWallLimit, func() dmResult { return runDMCase(c) })
			if !ok {
				// results stop here; the caller resumes with the remaining cases in a new process
				out.Results = append(out.Results, dmResult{Failure: &dmFailure{Symptom: "simulation_does_not_return",
					Detail: fmt.Sprintf("the engine did not return within %s of wall time", caseWallLimit)}})
				out.Aborted = true
				break
			}
			out.Results = append(out.Results, res)
		}
		return out, nil
	})
}
