package nettrace

// tasktrace.go — C32: a recording tracer (tracing.Tracer) is attached to EVERY
// component and connection of a real assembly, the library's buffer tracers to every
// port; the event stream it sees is written as ndjson for TaskTrace.tla.

import (
	"bufio"
	"encoding/json"
	"fmt"
	"math/rand"
	"os"
	"runtime/debug"
	"sort"
	"strings"

	"github.com/sarchlab/akita/v5/timing"
	"github.com/sarchlab/akita/v5/tracing"

	"verif/harness/internal/reg"
)

type taskEvent struct {
	E      string
	ID     uint64
	Parent uint64
	Kind   string
	What   string
	Loc    string
	Comp   string
	T      uint64
}

// traceLog is the stream one run's recording tracers share.
type traceLog struct {
	events []taskEvent
}

// recTracer is the recording tracer of one component.
type recTracer struct {
	comp string
	log  *traceLog
}

func (t *recTracer) StartTask(s tracing.TaskStart) {
	t.log.events = append(t.log.events, taskEvent{E: "start", ID: s.ID, Parent: s.ParentID, Kind: s.Kind, What: s.What, Loc: s.Location,
		Comp: t.comp, T: uint64(s.Time)})
}
func (t *recTracer) EndTask(e tracing.TaskEnd) {
	t.log.events = append(t.log.events, taskEvent{E: "end", ID: e.ID, Comp: t.comp, T: uint64(e.Time)})
}
func (t *recTracer) AddTaskTag(g tracing.TaskTag) {
	t.log.events = append(t.log.events, taskEvent{E: "tag", ID: g.TaskID, What: g.What, Comp: t.comp, T: uint64(g.Time)})
}
func (t *recTracer) AddMilestone(m tracing.Milestone) {
	t.log.events = append(t.log.events, taskEvent{E: "ms", ID: m.TaskID, Kind: string(m.Kind), What: m.What, Comp: t.comp, T: uint64(m.Time)})
}

// attachRecording puts a recording tracer on every component / connection and the
// library's buffer tracers on every port.
func attachRecording(log *traceLog, comps []tracing.NamedHookable, ports []interface{ Name() string }) {
	for _, c := range comps {
		tracing.CollectTrace(c, &recTracer{comp: c.Name(), log: log})
	}
	for _, p := range ports {
		tracing.CollectIncomingBufferTrace(p)
		tracing.CollectOutgoingBufferTrace(p)
	}
}

// writeRun renumbers IDs (first appearance) and ranks times, then writes the run.
func writeRun(w *bufio.Writer, run int, desc map[string]any, log *traceLog, quiescent bool, endT uint64) (n int, stats map[string]int) {
	ids := map[uint64]int{}
	idOf := func(id uint64) int {
		if v, ok := ids[id]; ok {
			return v
		}
		ids[id] = len(ids) + 1
		return len(ids)
	}
	tset := map[uint64]bool{endT: true}
	for _, e := range log.events {
		tset[e.T] = true
	}
	ts := make([]uint64, 0, len(tset))
	for t := range tset {
		ts = append(ts, t)
	}
	sort.Slice(ts, func(i, j int) bool { return ts[i] < ts[j] })
	rank := map[uint64]int{}
	for i, t := range ts {
		rank[t] = i
	}
	emit := func(m map[string]any) {
		b, _ := json.Marshal(m)
		w.Write(b)
		w.WriteByte('\n')
		n++
	}
	stats = map[string]int{}
	head := map[string]any{"e": "run", "run": run}
	for k, v := range desc {
		head[k] = v
	}
	emit(head)
	kinds := map[string]bool{}
	startedIDs := map[uint64]bool{}
	for _, e := range log.events {
		stats[e.E]++
		if e.E == "start" {
			startedIDs[e.ID] = true
		} else if e.E == "end" && !startedIDs[e.ID] {
			stats["stray_ends"]++ // EndTask of an ID never started (reset helpers do this by design): counted, not judged
		}
		switch e.E {
		case "start":
			kinds[e.Kind] = true
			emit(map[string]any{"e": "start", "id": idOf(e.ID), "parent": idOf0(ids, e.Parent), "kind": e.Kind, "what": e.What, "loc": e.Loc,
				"comp": e.Comp, "t": rank[e.T], "ps": fmt.Sprint(e.T), "raw": fmt.Sprint(e.ID)})
		case "end":
			emit(map[string]any{"e": "end", "id": idOf(e.ID), "comp": e.Comp, "t": rank[e.T], "ps": fmt.Sprint(e.T)})
		default:
			emit(map[string]any{"e": e.E, "id": idOf(e.ID), "what": e.What, "mkind": e.Kind, "comp": e.Comp, "t": rank[e.T], "ps": fmt.Sprint(e.T)})
		}
	}
	if quiescent {
		emit(map[string]any{"e": "quiesce", "t": rank[endT], "ps": fmt.Sprint(endT)})
	}
	stats["kinds"] = len(kinds)
	return n, stats
}

// compType names the library package behind a component name of the assemblies built here.
func compType(name string, cfg *StackCfg) string {
	if cfg != nil {
		switch name {
		case "Requester":
			return "requester"
		case "Cache":
			if cfg.Kind == "wb" || (cfg.Kind == "rob" && cfg.Lower != "wt") {
				return "writeback"
			}
			return "writethroughcache"
		case "L1":
			return "writethroughcache"
		case "L2":
			return "writeback"
		case "Mem":
			return map[string]string{"ideal": "idealmemcontroller", "dram": "dram", "banked": "simplebankedmemory"}[cfg.Leaf]
		case "TLB":
			return "tlb"
		case "MMU":
			return "mmu"
		case "AT":
			return "addresstranslator"
		case "ROB":
			return "rob"
		}
	}
	switch {
	case strings.Contains(name, ".SW[") || strings.Contains(name, "Switch") || strings.Contains(name, "RootComplex"):
		return "switch"
	case strings.Contains(name, ".EP[") || strings.Contains(name, "EndPoint"):
		return "endpoint"
	case strings.Contains(name, "Conn"):
		return "directconnection"
	case len(name) > 1 && name[0] == 'D' && name[1] >= '0' && name[1] <= '9':
		return "agent"
	}
	return "?"
}

// idOf0 maps a parent reference without allocating a number for an ID never seen as a task
// (parents are not judged by the rules; 0 = no / unknown parent).
func idOf0(ids map[uint64]int, id uint64) int {
	if v, ok := ids[id]; ok {
		return v
	}
	return 0
}

// runStackTraced runs one memory assembly with recording on everything.
func runStackTraced(cfg StackCfg, w *bufio.Writer, run int) (info map[string]any, lines int) {
	info = map[string]any{"run": run, "assembly": cfg.Kind, "leaf": cfg.Leaf, "id": cfg.ID}
	log := &traceLog{}
	var s *stack
	quiescent := false
	func() {
		defer func() {
			if p := recover(); p != nil {
				info["panic"] = fmt.Sprint(p)
				info["stack"] = string(debug.Stack())
			}
		}()
		s = buildStack(cfg)
		var ports []interface{ Name() string }
		for _, p := range s.allPorts() {
			ports = append(ports, p)
		}
		attachRecording(log, s.allComps(), ports)
		s.eng.AcceptHook(&boundHook{limit: s.limit()})
		s.rq.TickLater()
		quiescent = runBounded(s.eng, s.limit())
		kicks := 0
		for quiescent && !s.rq.idle() && kicks < 6 {
			kicks++
			s.kick()
			quiescent = runBounded(s.eng, s.limit())
		}
		info["kicks"] = kicks
	}()
	if s == nil {
		return info, 0
	}
	idle := s.rq.idle()
	info["sent"], info["answered"], info["strays"], info["idle"], info["quiescent"] = s.rq.sent, s.rq.answered, s.rq.strays, idle, quiescent
	info["ctl"], info["refused_ctl"], info["dropped"] = s.rq.ctlCount, s.rq.refusedCtl, len(s.rq.dropped)
	resets := 0
	for _, st := range cfg.Ctl {
		for _, c := range st.Cmds {
			if c.Cmd == "reset" {
				resets++
			}
		}
	}
	info["resets"] = resets
	// the rules about the end of tasks apply to a run that came to rest with nothing left to do
	atRest := quiescent && idle && info["panic"] == nil
	types := map[string]string{}
	for _, c := range s.allComps() {
		types[c.Name()] = compType(c.Name(), &cfg)
	}
	n, stats := writeRun(w, run, map[string]any{"assembly": cfg.Kind, "leaf": cfg.Leaf, "resets": resets, "types": types}, log, atRest, uint64(s.eng.CurrentTime()))
	info["events"], info["stats"], info["at_rest"] = n, stats, atRest
	return info, n
}

// runNetTraced runs one network with recording on everything: the agents and every
// switch, endpoint and link the connector builds.
func runNetTraced(ns NetSpec, w *bufio.Writer, run int, viaConnector bool) (info map[string]any, lines int) {
	info = map[string]any{"run": run, "assembly": "net-" + ns.Kind, "shape": ns.Shape, "id": ns.ID}
	log := &traceLog{}
	var bn *builtNetwork
	quiescent := false
	func() {
		defer func() {
			if p := recover(); p != nil {
				info["panic"] = fmt.Sprint(p)
			}
		}()
		if viaConnector {
			// the library's own way: one tracer handed to the connector
			bn = buildNetwork(ns, &recTracer{comp: "(vis)", log: log})
			for _, a := range bn.agents {
				tracing.CollectTrace(a, &recTracer{comp: a.Name(), log: log})
			}
		} else {
			bn = buildNetwork(ns, nil)
			for _, c := range bn.reg.comps {
				tracing.CollectTrace(c, &recTracer{comp: c.Name(), log: log})
			}
		}
		for _, p := range bn.reg.ports {
			tracing.CollectIncomingBufferTrace(p)
			tracing.CollectOutgoingBufferTrace(p)
		}
		quiescent = bn.run()
	}()
	if bn == nil {
		return info, 0
	}
	unsent, held := 0, 0
	for _, a := range bn.agents {
		unsent += len(a.queue)
		for _, p := range a.ports {
			held += p.NumIncoming()
		}
	}
	atRest := quiescent && unsent == 0 && held == 0 && info["panic"] == nil
	types := map[string]string{}
	for _, c := range bn.reg.comps {
		types[c.Name()] = compType(c.Name(), nil)
	}
	n, stats := writeRun(w, run, map[string]any{"assembly": "net-" + ns.Kind, "shape": ns.Shape, "resets": 0, "types": types}, log, atRest, uint64(bn.eng.CurrentTime()))
	info["events"], info["stats"], info["at_rest"], info["quiescent"], info["unsent"] = n, stats, atRest, quiescent, unsent
	info["components"] = len(bn.reg.comps)
	return info, n
}

func init() {
	// task_trace: assemblies (memory stacks with control histories, networks) traced for TaskTrace.tla
	reg.Register("task_trace", func(raw json.RawMessage) (any, error) {
		var in struct {
			Seed   int64      `json:"seed"`
			Stacks int        `json:"stacks"`
			Nets   int        `json:"nets"`
			Ops    int        `json:"ops"`
			Msgs   int        `json:"msgs"`
			First  int        `json:"first"`
			Cfgs   []StackCfg `json:"cfgs"`
			Specs  []NetSpec  `json:"specs"`
			Out    string     `json:"out"`
		}
		if err := json.Unmarshal(raw, &in); err != nil {
			return nil, err
		}
		f, err := os.Create(in.Out)
		if err != nil {
			return nil, err
		}
		defer f.Close()
		w := bufio.NewWriterSize(f, 1<<20)
		defer w.Flush()
		cfgs := in.Cfgs
		for i := 0; i < in.Stacks; i++ {
			k := in.First + i
			rng := rand.New(rand.NewSource(in.Seed*7919 + int64(k)))
			mode := []string{"reset", "none", "soft", "reset", "mixed"}[k%5]
			cfgs = append(cfgs, genStack(rng, k, in.Ops, mode))
		}
		specs := in.Specs
		for i := 0; i < in.Nets; i++ {
			k := in.First + i
			rng := rand.New(rand.NewSource(in.Seed*104729 + int64(k)))
			ns := genNet(rng, k, in.Msgs/2+rng.Intn(in.Msgs+1))
			// keep traced networks small: every flit is a task in every switch it crosses
			for j := range ns.Msgs {
				if ns.Msgs[j].Bytes > 300 {
					ns.Msgs[j].Bytes = ns.Msgs[j].Bytes % 300
				}
			}
			specs = append(specs, ns)
		}
		var infos []map[string]any
		var starts []int
		var replays []any
		line, run := 1, 0
		// The ID generator is NOT reset between runs: the tracing registries are process-wide and keyed by
		// message ID, so restarting IDs could make a stale entry of one run collide with the next.
		timing.ResetIDGenerator()
		timing.UseSequentialIDGenerator()
		for _, c := range cfgs {
			starts = append(starts, line)
			info, n := runStackTraced(c, w, run)
			infos = append(infos, info)
			replays = append(replays, map[string]any{"stack": c})
			line += n
			run++
		}
		for i, ns := range specs {
			starts = append(starts, line)
			info, n := runNetTraced(ns, w, run, i%2 == 0)
			infos = append(infos, info)
			replays = append(replays, map[string]any{"net": ns, "via_connector": i%2 == 0})
			line += n
			run++
		}
		return map[string]any{"runs": run, "events": line - 1, "infos": infos, "starts": starts, "replays": replays}, nil
	})
}
