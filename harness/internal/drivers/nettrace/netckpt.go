package nettrace

// netckpt.go — C06 (checkpoint / restore at any time boundary is invisible) and C03
// (serial simulations are deterministic) on networks: the seeded networks of net.go,
// built on a checkpointable simulation.Simulation (the connectors take the simulation as
// registrar), with device agents whose progress lives in component State.
//
// Every simulation runs in its OWN OS process (os/exec of this binary, driver
// net_ckpt_proc), as a real restore does: the repository keeps process-wide tracing side
// tables keyed by component name and message ID that would leak between simulations.

import (
	"bufio"
	"bytes"
	"crypto/sha256"
	"encoding/hex"
	"encoding/json"
	"fmt"
	"hash/fnv"
	"math/rand"
	"net/url"
	"os"
	"os/exec"
	"path/filepath"
	"regexp"
	"sort"
	"strings"
	"sync"

	"archive/tar"
	"compress/gzip"
	"io"

	"github.com/sarchlab/akita/v5/hooking"
	"github.com/sarchlab/akita/v5/messaging"
	"github.com/sarchlab/akita/v5/modeling"
	"github.com/sarchlab/akita/v5/noc/networking/mesh"
	"github.com/sarchlab/akita/v5/noc/networking/networkconnector"
	"github.com/sarchlab/akita/v5/noc/networking/nvlink"
	"github.com/sarchlab/akita/v5/noc/networking/pcie"
	"github.com/sarchlab/akita/v5/simulation"
	"github.com/sarchlab/akita/v5/timing"

	"verif/harness/internal/reg"
)

const netBuildID = "verif-net-build"

// ---------------------------------------------------------------- checkpointable device agent

type ckAgentSpec struct {
	Drain     int    `json:"drain"`
	StallFrom int    `json:"stall_from"`
	StallLen  int    `json:"stall_len"`
	NumMsgs   int    `json:"num_msgs"`
	Script    string `json:"script"` // fingerprint of the traffic script of this agent
}

// ckAgentState is everything the agent needs to go on where it stopped.
type ckAgentState struct {
	Ticks int    `json:"ticks"`
	Next  int    `json:"next"` // position in the script
	Sent  int    `json:"sent"`
	Retr  int    `json:"retr"`
	Sum   uint64 `json:"sum"` // running checksum of the metadata (not the generated IDs) of everything retrieved
}

type ckAgent struct {
	*modeling.Component[ckAgentSpec, ckAgentState, modeling.None]
	ports  []messaging.Port
	script []pendingMsg // rebuilt by setup from the configuration, like the wiring
}

func (a *ckAgent) Tick() bool {
	st := &a.State
	sp := a.Spec()
	st.Ticks++
	progress := false
	for st.Next < len(a.script) && a.script[st.Next].spec.At <= st.Ticks {
		pm := a.script[st.Next]
		if !pm.port.CanSend() {
			break
		}
		id := timing.GetIDGenerator().Generate()
		m := trafficMsg{MsgMeta: messaging.MsgMeta{ID: id, Src: pm.port.AsRemote(), Dst: messaging.RemotePort(pm.spec.Dst),
			TrafficClass: pm.spec.Class, TrafficBytes: pm.spec.Bytes, RspTo: pm.spec.RspTo}, Payload: "p"}
		pm.port.Send(m)
		st.Next++
		st.Sent++
		progress = true
	}
	if st.Next < len(a.script) && a.script[st.Next].spec.At > st.Ticks {
		progress = true
	}
	stalled := st.Ticks >= sp.StallFrom && st.Ticks < sp.StallFrom+sp.StallLen
	for _, p := range a.ports {
		if stalled {
			if p.NumIncoming() > 0 {
				progress = true
			}
			continue
		}
		for k := 0; k < sp.Drain; k++ {
			msg := p.RetrieveIncoming()
			if msg == nil {
				break
			}
			m := msg.Meta()
			h := fnv.New64a()
			fmt.Fprintf(h, "%s|%s|%s|%d|%d|%s", p.Name(), m.Src, m.Dst, m.TrafficBytes, m.RspTo, m.TrafficClass)
			st.Sum = st.Sum*1000003 + h.Sum64()%1000000007
			st.Retr++
			progress = true
		}
		if p.NumIncoming() > 0 {
			progress = true
		}
	}
	return progress
}

// ---------------------------------------------------------------- a network on a simulation

type ckNet struct {
	spec   NetSpec
	sim    *simulation.Simulation
	eng    *timing.SerialEngine
	agents []*ckAgent
	ports  map[string]messaging.Port
	recs   []map[string]any
}

func scriptHash(ms []pendingMsg) string {
	h := sha256.New()
	for _, m := range ms {
		b, _ := json.Marshal(m.spec)
		h.Write(b)
	}
	return hex.EncodeToString(h.Sum(nil)[:8])
}

// buildCkNet builds the network of ns on sim. mutate, when not empty, perturbs nothing here
// (rebuild = the same construction code with the same configuration).
func buildCkNet(ns NetSpec, sim *simulation.Simulation) *ckNet {
	n := &ckNet{spec: ns, sim: sim, eng: sim.GetEngine().(*timing.SerialEngine), ports: map[string]messaging.Port{}}
	byPort := map[string]*ckAgent{}
	for _, d := range ns.Devices {
		a := &ckAgent{}
		var names []string
		for j := 0; j < d.Ports; j++ {
			names = append(names, fmt.Sprintf("%s.Port%d", d.Name, j))
		}
		var script []MsgSpec
		for _, m := range ns.Msgs {
			for _, pn := range names {
				if m.Src == pn {
					script = append(script, m)
				}
			}
		}
		sort.SliceStable(script, func(i, j int) bool { return script[i].At < script[j].At })
		for _, m := range script {
			a.script = append(a.script, pendingMsg{spec: m})
		}
		a.Component = modeling.NewBuilder[ckAgentSpec, ckAgentState, modeling.None]().
			WithEngine(n.eng).WithFreq(mhz(d.FreqMHz)).
			WithSpec(ckAgentSpec{Drain: d.Drain, StallFrom: d.StallFrom, StallLen: d.StallLen, NumMsgs: len(script), Script: scriptHash(a.script)}).
			Build(d.Name)
		a.AddMiddleware(a)
		a.DeclarePortGroup("Port")
		for _, pn := range names {
			p := messaging.NewPort(a, d.In, d.Out, pn)
			a.AssignPortToGroup("Port", p)
			sim.RegisterPort(p)
			a.ports = append(a.ports, p)
			n.ports[pn] = p
			byPort[pn] = a
		}
		for i := range a.script {
			a.script[i].port = n.ports[a.script[i].spec.Src]
		}
		sim.RegisterComponent(a.Component)
		n.agents = append(n.agents, a)
	}
	wireNetwork(ns, sim, func(i int) []messaging.Port { return n.agents[i].ports })
	return n
}

// wireNetwork builds switches, endpoints and links of ns around the given device ports.
func wireNetwork(ns NetSpec, r modeling.Registrar, portsOf func(i int) []messaging.Port) {
	freq := mhz(ns.FreqMHz)
	switch ns.Kind {
	case "mesh":
		c := mesh.NewConnector().WithRegistrar(r).WithFreq(freq).WithSwitchLatency(ns.SwLatency).
			WithBandwidth(ns.Bandwidth).WithFlitSize(ns.FlitSize)
		c.CreateNetwork(ns.Name)
		for i, d := range ns.Devices {
			c.AddTile([3]int{d.At[0], d.At[1], d.At[2]}, portsOf(i))
		}
		c.EstablishNetwork()
	case "pcie":
		c := pcie.NewConnector().WithRegistrar(r).WithFrequency(freq).WithBandwidth(ns.BytesPerS).WithSwitchLatency(ns.SwLatency)
		c.CreateNetwork(ns.Name)
		ids := make([]int, len(ns.Parents))
		ids[0] = c.AddRootComplex(portsOf(0))
		for i := 1; i < len(ns.Parents); i++ {
			ids[i] = c.AddSwitch(ids[ns.Parents[i]])
		}
		for i := 1; i < len(ns.Devices); i++ {
			c.PlugInDevice(ids[ns.Devices[i].At[0]], portsOf(i))
		}
		c.EstablishRoute()
	case "nvlink":
		c := nvlink.NewConnector().WithRegistrar(r).WithFrequency(freq).WithPCIeBandwidth(ns.BytesPerS).
			WithPCIeSwitchLatency(ns.SwLatency).WithNVLinkSwitchLatency(ns.SwLatency)
		c.CreateNetwork(ns.Name)
		root := c.AddRootComplex(portsOf(0))
		sws := make([]int, len(ns.Parents))
		for i := range ns.Parents {
			sws[i] = c.AddPCIeSwitch()
			if ns.Parents[i] < 0 {
				c.ConnectSwitchesWithPCIeLink(root, sws[i])
			} else {
				c.ConnectSwitchesWithPCIeLink(sws[ns.Parents[i]], sws[i])
			}
		}
		devIDs := []int{0}
		for i := 1; i < len(ns.Devices); i++ {
			devIDs = append(devIDs, c.PlugInDevice(sws[ns.Devices[i].At[0]], portsOf(i)))
		}
		for _, l := range ns.NVLinks {
			c.ConnectDevicesWithNVLink(devIDs[l[0]], devIDs[l[1]], l[2])
		}
		c.EstablishRoute()
	case "generic":
		c := networkconnector.MakeConnector().WithRegistrar(r).WithDefaultFreq(freq).WithFlitSize(ns.FlitSize)
		if ns.Router == "bandwidth" {
			c = c.WithRouter(&networkconnector.BandwidthFirstRouter{FlitSize: ns.FlitSize})
		}
		c.NewNetwork(ns.Name)
		sw := networkconnector.LinkEndSwitchParameter{IncomingBufSize: ns.BufSize, OutgoingBufSize: ns.BufSize,
			NumInputChannel: ns.Chans, NumOutputChannel: ns.Chans, Latency: ns.SwLatency}
		link := networkconnector.LinkParameter{IsIdeal: true, Frequency: freq}
		for i := 0; i < ns.NSwitch; i++ {
			c.AddSwitch()
		}
		for _, e := range ns.Edges {
			c.ConnectSwitches(e[0], e[1], networkconnector.SwitchToSwitchLinkParameter{LeftEndParam: sw, RightEndParam: sw, LinkParam: link})
		}
		for i, d := range ns.Devices {
			c.ConnectDevice(d.At[0], portsOf(i), networkconnector.DeviceToSwitchLinkParameter{
				DeviceEndParam: networkconnector.LinkEndDeviceParameter{IncomingBufSize: ns.BufSize, OutgoingBufSize: ns.BufSize,
					NumInputChannel: ns.Chans, NumOutputChannel: ns.Chans},
				SwitchEndParam: sw, LinkParam: link})
		}
		c.EstablishRoute()
	default:
		panic("unknown network kind " + ns.Kind)
	}
}

// Func observes the engine (every handled event) and the device ports.
func (n *ckNet) Func(ctx hooking.HookCtx) {
	switch ctx.Pos {
	case timing.HookPosBeforeEvent:
		evt := ctx.Item.(timing.Event)
		rec := map[string]any{"e": "act", "t": uint64(evt.Time()), "h": evt.HandlerID()}
		if te, ok := evt.(modeling.TickEvent); ok {
			rec["id"] = te.ID
		}
		n.recs = append(n.recs, rec)
	case messaging.HookPosPortMsgSend, messaging.HookPosPortMsgRecvd:
		m := ctx.Item.(messaging.Msg).Meta()
		e := "send"
		if ctx.Pos == messaging.HookPosPortMsgRecvd {
			e = "recv"
		}
		n.recs = append(n.recs, map[string]any{"e": e, "p": ctx.Domain.(messaging.Port).Name(), "m": m.ID, "src": string(m.Src), "dst": string(m.Dst),
			"rspto": m.RspTo, "class": m.TrafficClass, "bytes": m.TrafficBytes, "t": uint64(n.eng.CurrentTime())})
	}
}

func (n *ckNet) observe() {
	n.eng.AcceptHook(n)
	var names []string
	for pn := range n.ports {
		names = append(names, pn)
	}
	sort.Strings(names)
	for _, pn := range names {
		n.ports[pn].AcceptHook(n)
	}
}

func (n *ckNet) kick() {
	for _, a := range n.agents {
		a.TickLater()
	}
}

func (n *ckNet) quiesce() {
	unsent, held := 0, 0
	for _, a := range n.agents {
		unsent += len(a.script) - a.State.Next
		for _, p := range a.ports {
			held += p.NumIncoming()
		}
	}
	n.recs = append(n.recs, map[string]any{"e": "quiesce", "t": uint64(n.eng.CurrentTime()), "unsent": unsent, "held": held})
}

// ---------------------------------------------------------------- one simulation = one process

type netProcIn struct {
	Mode  string  `json:"mode"` // ref | a | b | canon
	Spec  NetSpec `json:"spec"`
	T     uint64  `json:"t"`
	Ck    string  `json:"ck"`
	Final string  `json:"final"`
	Dir   string  `json:"dir"`
	Tag   string  `json:"tag"`
}

type netProcOut struct {
	Recs     []map[string]any `json:"recs"`
	Err      string           `json:"err"`
	Panicked string           `json:"panicked"`
}

func resetNetIDs(start uint64) {
	timing.ResetIDGenerator()
	timing.UseSequentialIDGenerator()
	if start > 0 {
		timing.SetIDGeneratorNextID(start)
	}
}

func newNetSim(dir, tag string) *simulation.Simulation {
	return simulation.MakeBuilder().WithoutMonitoring().WithOutputFileName(filepath.Join(dir, "rec_"+tag)).Build()
}

func guarded(f func() error) (err error, panicked string) {
	defer func() {
		if r := recover(); r != nil {
			panicked = fmt.Sprint(r)
		}
	}()
	return f(), ""
}

func runNetProc(in netProcIn) (out netProcOut) {
	defer func() {
		if r := recover(); r != nil {
			out.Panicked = fmt.Sprint(r)
		}
	}()
	switch in.Mode {
	case "ref":
		resetNetIDs(0)
		sim := newNetSim(in.Dir, in.Tag)
		n := buildCkNet(in.Spec, sim)
		n.observe()
		n.kick()
		_ = n.eng.Run()
		n.quiesce()
		if err := sim.SaveCheckpoint(in.Final, netBuildID); err != nil {
			out.Err = "save: " + err.Error()
		}
		sim.Terminate()
		out.Recs = n.recs
	case "a":
		resetNetIDs(0)
		sim := newNetSim(in.Dir, in.Tag)
		n := buildCkNet(in.Spec, sim)
		n.observe()
		n.kick()
		_ = n.eng.RunUntil(timing.VTimeInPicoSec(in.T))
		if err := sim.SaveCheckpoint(in.Ck, netBuildID); err != nil {
			out.Err = "save: " + err.Error()
		}
		sim.Terminate()
		out.Recs = n.recs
	case "b":
		resetNetIDs(777777) // another process starts with its own counter: the restore must set it
		sim := newNetSim(in.Dir, in.Tag)
		n := buildCkNet(in.Spec, sim)
		n.observe()
		err, panicked := guarded(func() error { return sim.LoadCheckpoint(in.Ck, netBuildID) })
		if err != nil || panicked != "" {
			if err != nil {
				out.Err = "load: " + err.Error()
			}
			out.Panicked = panicked
			return out
		}
		_ = n.eng.Run()
		n.quiesce()
		if err := sim.SaveCheckpoint(in.Final, netBuildID); err != nil {
			out.Err = "save after resume: " + err.Error()
		}
		sim.Terminate()
		out.Recs = n.recs
	case "canon":
		resetNetIDs(424242)
		sim := newNetSim(in.Dir, in.Tag)
		buildCkNet(in.Spec, sim)
		if err := sim.LoadCheckpoint(in.Ck, netBuildID); err != nil {
			out.Err = "load: " + err.Error()
			return out
		}
		if err := sim.SaveCheckpoint(in.Final, netBuildID); err != nil {
			out.Err = "save: " + err.Error()
		}
		sim.Terminate()
	}
	return out
}

type netRunner struct {
	dir string
	mu  sync.Mutex
	n   int
}

func (k *netRunner) exec(in netProcIn, gomaxprocs string) (netProcOut, error) {
	k.mu.Lock()
	k.n++
	tag := fmt.Sprintf("%d", k.n)
	k.mu.Unlock()
	in.Dir, in.Tag = k.dir, tag
	inF := filepath.Join(k.dir, "p"+tag+".in")
	outF := filepath.Join(k.dir, "p"+tag+".out")
	b, _ := json.Marshal(in)
	if err := os.WriteFile(inF, b, 0o644); err != nil {
		return netProcOut{}, err
	}
	cmd := exec.Command(os.Args[0], "net_ckpt_proc", "-in", inF, "-out", outF)
	cmd.Dir = k.dir
	if gomaxprocs != "" {
		cmd.Env = append(os.Environ(), "GOMAXPROCS="+gomaxprocs)
	}
	if o, err := cmd.CombinedOutput(); err != nil {
		return netProcOut{}, fmt.Errorf("child process failed: %v: %s", err, clipS(string(o), 2000))
	}
	var out netProcOut
	ob, err := os.ReadFile(outF)
	if err != nil {
		return out, err
	}
	dec := json.NewDecoder(bytes.NewReader(ob))
	dec.UseNumber()
	if err := dec.Decode(&out); err != nil {
		return out, err
	}
	for _, r := range out.Recs {
		for kk, v := range r {
			if num, ok := v.(json.Number); ok {
				u, _ := num.Int64()
				r[kk] = uint64(u)
			}
		}
	}
	_ = os.Remove(inF)
	_ = os.Remove(outF)
	for _, f := range []string{"rec_" + tag + ".sqlite3"} {
		_ = os.Remove(filepath.Join(k.dir, f))
	}
	return out, nil
}

func clipS(s string, n int) string {
	if len(s) > n {
		return s[:n] + "…"
	}
	return s
}

func readCkArchive(path string) (map[string][]byte, error) {
	f, err := os.Open(path)
	if err != nil {
		return nil, err
	}
	defer f.Close()
	gz, err := gzip.NewReader(f)
	if err != nil {
		return nil, err
	}
	tr := tar.NewReader(gz)
	out := map[string][]byte{}
	for {
		h, err := tr.Next()
		if err == io.EOF {
			break
		}
		if err != nil {
			return nil, err
		}
		b, err := io.ReadAll(tr)
		if err != nil {
			return nil, err
		}
		out[h.Name] = b
	}
	return out, nil
}

// ---------------------------------------------------------------- comparison

type netMismatch struct {
	Net      int     `json:"net"`
	Cut      uint64  `json:"cut"`
	Kind     string  `json:"kind"`  // suffix | final | load_error | panic | canonical | save_error
	Class    string  `json:"class"` // ids_only: equal once generated IDs are erased; real: differs beyond IDs
	InBuf    bool    `json:"msg_in_buffer_at_cut"`
	InSwitch bool    `json:"flits_in_switch_at_cut"`
	Entity   string  `json:"entity,omitempty"`
	EntType  string  `json:"entity_type,omitempty"`
	Detail   string  `json:"detail"`
	Spec     NetSpec `json:"spec"`
}

var netIDMask = regexp.MustCompile(`"(id|ID|RspTo|rsp_to|next_id|task_id|msg_task_id|msg_id|recv_task_id)":\s*\d+`)

func maskNetIDs(b []byte) []byte { return netIDMask.ReplaceAll(b, []byte(`"$1":0`)) }

// canonRecs renames event IDs and message IDs by order of first appearance.
func canonRecs(recs []map[string]any) []map[string]any {
	ev, ms := map[any]int{}, map[any]int{}
	out := make([]map[string]any, len(recs))
	for i, r := range recs {
		c := map[string]any{}
		for k, v := range r {
			c[k] = v
		}
		if v, ok := c["id"]; ok {
			if _, seen := ev[v]; !seen {
				ev[v] = len(ev) + 1
			}
			c["id"] = ev[v]
		}
		if v, ok := c["m"]; ok {
			if _, seen := ms[v]; !seen {
				ms[v] = len(ms) + 1
			}
			c["m"] = ms[v]
		}
		out[i] = c
	}
	return out
}

func recJSON(r map[string]any) string { b, _ := json.Marshal(r); return string(b) }

func firstRecDiff(want, got []map[string]any) string {
	for i := range want {
		if i >= len(got) {
			break
		}
		if recJSON(want[i]) != recJSON(got[i]) {
			return fmt.Sprintf("record %d after the cut: uninterrupted %s, resumed %s", i, recJSON(want[i]), recJSON(got[i]))
		}
	}
	if len(want) != len(got) {
		return fmt.Sprintf("uninterrupted run has %d records after the cut, resumed run %d", len(want), len(got))
	}
	return ""
}

func recTime(r map[string]any) uint64 {
	if v, ok := r["t"].(uint64); ok {
		return v
	}
	return 0
}

func eventTimes(recs []map[string]any) []uint64 {
	seen := map[uint64]bool{}
	var out []uint64
	for _, r := range recs {
		if r["e"] == "act" && !seen[recTime(r)] {
			seen[recTime(r)] = true
			out = append(out, recTime(r))
		}
	}
	return out
}

// suffixFrom returns the records from the first handled event later than t on.
func suffixFrom(recs []map[string]any, t uint64) []map[string]any {
	for i, r := range recs {
		if (r["e"] == "act" && recTime(r) > t) || r["e"] == "quiesce" {
			return recs[i:]
		}
	}
	return nil
}

// entityType names the library type behind a checkpoint entry.
var (
	rePortName  = regexp.MustCompile(`(\.NetworkPort|\.Port\[\d+\]|^D\d+\.Port\d+)$`)
	reAgentName = regexp.MustCompile(`^D\d+$`)
)

func entityType(name string) string {
	n := strings.TrimPrefix(name, "entities/")
	if u, err := url.PathUnescape(n); err == nil {
		n = u
	}
	switch {
	case n == "Engine" || n == "IDGenerator" || n == "build_id":
		return strings.ToLower(n)
	case rePortName.MatchString(n):
		return "port"
	case strings.Contains(n, ".Conn["):
		return "directconnection"
	case strings.Contains(n, ".EP[") || strings.Contains(n, "EndPoint"):
		return "endpoint"
	case strings.Contains(n, ".SW[") || strings.Contains(n, "Switch") || strings.Contains(n, "RootComplex"):
		return "switch"
	case reAgentName.MatchString(n):
		return "agent"
	}
	return "?"
}

var saveErrEntity = regexp.MustCompile(`entity "([^"]+)" \(([^)]+)\)`)

// cutFlags inspects the checkpoint taken at the cut.
func cutFlags(arch map[string][]byte) (inBuf, inSwitch, assembling bool) {
	for name, d := range arch {
		switch entityType(name) {
		case "port":
			if bytes.Contains(d, []byte(`"elements":[{`)) {
				inBuf = true
			}
		case "switch":
			if bytes.Contains(d, []byte(`"elements":[{`)) || bytes.Contains(d, []byte(`"stages":[{`)) || bytes.Contains(d, []byte(`"item":{`)) {
				inSwitch = true
			}
		case "endpoint":
			if bytes.Contains(d, []byte(`"assembling_msgs":[{`)) {
				assembling = true
			}
		}
	}
	return
}

type cutResult struct {
	t          uint64
	mm         []netMismatch
	prefix     []map[string]any
	suffix     []map[string]any
	inBuf      bool
	inSwitch   bool
	assembling bool
	events     int
}

func (k *netRunner) cut(ni int, ns NetSpec, t uint64, ref []map[string]any, refFinal map[string][]byte) (res cutResult) {
	res.t = t
	add := func(m netMismatch) {
		m.Net, m.Cut, m.Spec, m.InBuf, m.InSwitch = ni, t, ns, res.inBuf, res.inSwitch
		res.mm = append(res.mm, m)
	}
	ck := filepath.Join(k.dir, fmt.Sprintf("n%d_cut%d.ckpt", ni, t))
	defer os.Remove(ck)
	a, err := k.exec(netProcIn{Mode: "a", Spec: ns, T: t, Ck: ck}, "")
	if err != nil {
		add(netMismatch{Kind: "harness", Detail: err.Error()})
		return
	}
	if a.Panicked != "" {
		add(netMismatch{Kind: "panic", Detail: "run to the cut: " + a.Panicked})
		return
	}
	if a.Err != "" {
		m := netMismatch{Kind: "save_error", Detail: a.Err}
		if g := saveErrEntity.FindStringSubmatch(a.Err); g != nil {
			m.Entity, m.EntType = g[1], g[2]
		}
		add(m)
		return
	}
	if arch, err := readCkArchive(ck); err == nil {
		res.inBuf, res.inSwitch, res.assembling = cutFlags(arch)
	}
	res.prefix = a.Recs
	fp := filepath.Join(k.dir, fmt.Sprintf("n%d_cut%d.final", ni, t))
	defer os.Remove(fp)
	b, err := k.exec(netProcIn{Mode: "b", Spec: ns, Ck: ck, Final: fp}, "")
	if err != nil {
		add(netMismatch{Kind: "harness", Detail: err.Error()})
		return
	}
	if b.Panicked != "" {
		add(netMismatch{Kind: "panic", Detail: b.Panicked})
		return
	}
	if b.Err != "" {
		add(netMismatch{Kind: "load_error", Detail: b.Err})
		return
	}
	res.suffix = b.Recs
	res.events = len(b.Recs)
	want := suffixFrom(ref, t)
	if d := firstRecDiff(want, b.Recs); d != "" {
		class := "real"
		if firstRecDiff(canonRecs(want), canonRecs(b.Recs)) == "" {
			class = "ids_only"
		}
		add(netMismatch{Kind: "suffix", Class: class, Detail: d})
	}
	final, err := readCkArchive(fp)
	if err != nil {
		add(netMismatch{Kind: "load_error", Detail: "final archive of the resumed run: " + err.Error()})
		return
	}
	var names []string
	for name := range refFinal {
		names = append(names, name)
	}
	sort.Strings(names)
	for _, name := range names {
		data := refFinal[name]
		if !bytes.Equal(data, final[name]) {
			class := "real"
			if bytes.Equal(maskNetIDs(data), maskNetIDs(final[name])) {
				class = "ids_only"
			}
			add(netMismatch{Kind: "final", Class: class, Entity: name, EntType: entityType(name),
				Detail: fmt.Sprintf("uninterrupted %s, resumed %s", clipS(string(bytes.TrimSpace(data)), 300), clipS(string(bytes.TrimSpace(final[name])), 300))})
			if class == "real" {
				break
			}
		}
	}
	if len(final) != len(refFinal) {
		add(netMismatch{Kind: "final", Class: "real", Entity: "<entity set>", Detail: "different entity sets"})
	}
	// load + save again must be byte-identical
	again := ck + ".again"
	defer os.Remove(again)
	c, err := k.exec(netProcIn{Mode: "canon", Spec: ns, Ck: ck, Final: again}, "")
	switch {
	case err != nil:
		add(netMismatch{Kind: "harness", Detail: err.Error()})
	case c.Panicked != "" || c.Err != "":
		add(netMismatch{Kind: "load_error", Detail: "canonical reload: " + c.Err + c.Panicked})
	default:
		x, _ := os.ReadFile(ck)
		y, _ := os.ReadFile(again)
		if !bytes.Equal(x, y) {
			ax, _ := readCkArchive(ck)
			ay, _ := readCkArchive(again)
			d, ent := "archive bytes differ", ""
			for n := range ax {
				if !bytes.Equal(ax[n], ay[n]) {
					ent = n
					d = fmt.Sprintf("entry %s differs: saved %s, re-saved %s", n, clipS(string(ax[n]), 300), clipS(string(ay[n]), 300))
					break
				}
			}
			add(netMismatch{Kind: "canonical", Entity: ent, EntType: entityType(ent), Detail: d})
		}
	}
	return
}

// chooseCuts picks at most max cut times: the instants of highest in-flight load (flits
// inside the network), the first and the last instant, the rest at random.
func chooseCuts(rng *rand.Rand, ref []map[string]any, max int) []uint64 {
	times := eventTimes(ref)
	if max <= 0 || len(times) <= max {
		return times
	}
	inflight := map[uint64]int{}
	cur := 0
	for _, r := range ref {
		switch r["e"] {
		case "send":
			cur++
		case "recv":
			cur--
		}
		if t := recTime(r); cur > inflight[t] {
			inflight[t] = cur
		}
	}
	byLoad := append([]uint64(nil), times...)
	sort.SliceStable(byLoad, func(i, j int) bool { return inflight[byLoad[i]] > inflight[byLoad[j]] })
	pick := map[uint64]bool{byLoad[0]: true, byLoad[len(byLoad)/8]: true, times[len(times)-1]: true}
	for len(pick) < max {
		pick[times[rng.Intn(len(times))]] = true
	}
	var out []uint64
	for _, t := range times {
		if pick[t] {
			out = append(out, t)
		}
	}
	return out
}

// netTraceRecs turns a run (prefix from the saved process, suffix from the resumed one)
// into NetTrace.tla records.
func netTraceRecs(id int, ns NetSpec, recs []map[string]any) []map[string]any {
	var names []string
	for _, d := range ns.Devices {
		for j := 0; j < d.Ports; j++ {
			names = append(names, fmt.Sprintf("%s.Port%d", d.Name, j))
		}
	}
	sort.Strings(names)
	out := []map[string]any{{"e": "net", "id": id, "kind": ns.Kind, "class": ns.Class, "shape": ns.Shape, "ports": names,
		"must": ns.Class == "mesh" || ns.Class == "tree"}}
	for _, r := range recs {
		switch r["e"] {
		case "send", "recv":
			out = append(out, map[string]any{"e": r["e"], "p": r["p"], "t": fmt.Sprint(r["t"]),
				"m": map[string]any{"id": r["m"], "src": r["src"], "dst": r["dst"], "rspto": r["rspto"], "class": r["class"], "bytes": r["bytes"]}})
		case "quiesce":
			held, _ := r["held"].(uint64)
			out = append(out, map[string]any{"e": "quiesce", "t": fmt.Sprint(r["t"]), "quiescent": true, "unsent": r["unsent"], "held": held, "drained": held == 0})
		}
	}
	return out
}

func genCkNets(seed int64, count, msgs, first int) []NetSpec {
	var out []NetSpec
	for i := 0; i < count; i++ {
		k := first + i
		rng := rand.New(rand.NewSource(seed*2750159 + int64(k)))
		ns := genNet(rng, k, msgs/2+rng.Intn(msgs+1))
		for j := range ns.Msgs {
			if ns.Msgs[j].Bytes > 400 {
				ns.Msgs[j].Bytes %= 400
			}
			if ns.Msgs[j].At > 60 {
				ns.Msgs[j].At = 1 + ns.Msgs[j].At%60
			}
		}
		if ns.SwLatency > 20 {
			ns.SwLatency = 3
		}
		out = append(out, ns)
	}
	return out
}

func init() {
	reg.Register("net_ckpt_proc", func(raw json.RawMessage) (any, error) {
		var in netProcIn
		if err := json.Unmarshal(raw, &in); err != nil {
			return nil, err
		}
		return runNetProc(in), nil
	})

	// net_ckpt_cuts: C06 on networks
	reg.Register("net_ckpt_cuts", func(raw json.RawMessage) (any, error) {
		var in struct {
			Seed     int64     `json:"seed"`
			Networks int       `json:"networks"`
			Msgs     int       `json:"msgs"`
			First    int       `json:"first"`
			MaxCuts  int       `json:"max_cuts"`
			Parallel int       `json:"parallel"`
			Specs    []NetSpec `json:"specs"`
			Cuts     []uint64  `json:"cuts"` // with Specs: cut exactly here
			TraceOut string    `json:"trace_out"`
		}
		if err := json.Unmarshal(raw, &in); err != nil {
			return nil, err
		}
		specs := append(in.Specs, genCkNets(in.Seed, in.Networks, in.Msgs, in.First)...)
		dir, _ := os.MkdirTemp("", "netckpt-")
		defer os.RemoveAll(dir)
		k := &netRunner{dir: dir}
		par := in.Parallel
		if par <= 0 {
			par = 8
		}
		var w *bufio.Writer
		if in.TraceOut != "" {
			f, err := os.Create(in.TraceOut)
			if err != nil {
				return nil, err
			}
			defer f.Close()
			w = bufio.NewWriterSize(f, 1<<20)
			defer w.Flush()
		}
		var mm []netMismatch
		cuts, events, entities, withBuf, withSwitch, withAsm, exact := 0, 0, 0, 0, 0, 0, 0
		var infos []map[string]any
		entTypes := map[string]int{}
		var sample map[string]any
		traceID := 0
		rng := rand.New(rand.NewSource(in.Seed + 17))
		for ni, ns := range specs {
			final := filepath.Join(dir, fmt.Sprintf("n%d.final", ni))
			ref, err := k.exec(netProcIn{Mode: "ref", Spec: ns, Final: final}, "")
			if err != nil {
				return nil, err
			}
			if ref.Panicked != "" {
				mm = append(mm, netMismatch{Net: ni, Kind: "panic", Detail: "uninterrupted run: " + ref.Panicked, Spec: ns})
				continue
			}
			if ref.Err != "" {
				m := netMismatch{Net: ni, Kind: "save_error", Detail: ref.Err, Spec: ns}
				if g := saveErrEntity.FindStringSubmatch(ref.Err); g != nil {
					m.Entity, m.EntType = g[1], g[2]
				}
				mm = append(mm, m)
				continue
			}
			refFinal, err := readCkArchive(final)
			if err != nil {
				return nil, err
			}
			_ = os.Remove(final)
			entities += len(refFinal)
			for name := range refFinal {
				entTypes[entityType(name)]++
			}
			times := in.Cuts
			if len(in.Specs) == 0 || len(times) == 0 {
				times = chooseCuts(rng, ref.Recs, in.MaxCuts)
			}
			results := make([]cutResult, len(times))
			var wg sync.WaitGroup
			sem := make(chan struct{}, par)
			for ci, t := range times {
				wg.Add(1)
				sem <- struct{}{}
				go func(ci int, t uint64) {
					defer wg.Done()
					defer func() { <-sem }()
					results[ci] = k.cut(ni, ns, t, ref.Recs, refFinal)
				}(ci, t)
			}
			wg.Wait()
			netExact := 0
			for _, r := range results {
				cuts++
				events += r.events
				if r.inBuf {
					withBuf++
				}
				if r.inSwitch {
					withSwitch++
				}
				if r.assembling {
					withAsm++
				}
				if len(r.mm) == 0 {
					exact++
					netExact++
				}
				mm = append(mm, r.mm...)
				if w != nil && r.suffix != nil {
					for _, rec := range netTraceRecs(traceID, ns, append(append([]map[string]any{}, r.prefix...), r.suffix...)) {
						b, _ := json.Marshal(rec)
						w.Write(b)
						w.WriteByte('\n')
					}
					traceID++
				}
				if sample == nil && len(r.suffix) > 3 {
					sample = map[string]any{"network": ns.Shape, "cut_ps": r.t, "flits_in_switch_at_cut": r.inSwitch, "msg_in_port_buffer_at_cut": r.inBuf,
						"entities": len(refFinal), "first_resumed_records": r.suffix[:3]}
				}
			}
			infos = append(infos, map[string]any{"net": ni, "kind": ns.Kind, "shape": ns.Shape, "msgs": len(ns.Msgs), "event_times": len(eventTimes(ref.Recs)),
				"cuts": len(times), "exact": netExact, "entities": len(refFinal), "records": len(ref.Recs)})
			if len(mm) > 600 {
				break
			}
		}
		return map[string]any{"networks": len(specs), "cuts": cuts, "events": events, "entities": entities, "entity_types": entTypes,
			"cuts_with_msg_in_port_buffer": withBuf, "cuts_with_flits_in_switch": withSwitch, "cuts_with_assembling_endpoint": withAsm,
			"cuts_exactly_equal": exact, "mismatches": mm, "infos": infos, "sample": sample, "spliced_runs": traceID}, nil
	})

	// net_det_run: C03 — every network once, in its own process, full observation stream
	reg.Register("net_det_run", func(raw json.RawMessage) (any, error) {
		var in struct {
			Seed     int64  `json:"seed"`
			Networks int    `json:"networks"`
			Msgs     int    `json:"msgs"`
			Out      string `json:"out"`
		}
		if err := json.Unmarshal(raw, &in); err != nil {
			return nil, err
		}
		specs := genCkNets(in.Seed, in.Networks, in.Msgs, 0)
		dir, _ := os.MkdirTemp("", "netdet-")
		defer os.RemoveAll(dir)
		k := &netRunner{dir: dir}
		f, err := os.Create(in.Out)
		if err != nil {
			return nil, err
		}
		defer f.Close()
		w := bufio.NewWriterSize(f, 1<<20)
		defer w.Flush()
		n := 0
		emit := func(m map[string]any) {
			b, _ := json.Marshal(m)
			w.Write(b)
			w.WriteByte('\n')
			n++
		}
		for i, ns := range specs {
			final := filepath.Join(dir, fmt.Sprintf("n%d.final", i))
			ref, err := k.exec(netProcIn{Mode: "ref", Spec: ns, Final: final}, os.Getenv("GOMAXPROCS"))
			if err != nil {
				return nil, err
			}
			if ref.Panicked != "" || ref.Err != "" {
				emit(map[string]any{"e": "failed", "sys": i, "what": ref.Err + ref.Panicked})
				continue
			}
			for _, r := range ref.Recs {
				// TLC integers are 32-bit: times and IDs travel as strings (compared for equality only)
				o := map[string]any{"sys": i}
				for kk, v := range r {
					if u, ok := v.(uint64); ok {
						o[kk] = fmt.Sprint(u)
					} else {
						o[kk] = v
					}
				}
				emit(o)
			}
			arch, err := readCkArchive(final)
			if err != nil {
				return nil, err
			}
			var names []string
			for nme := range arch {
				names = append(names, nme)
			}
			sort.Strings(names)
			for _, nme := range names {
				sum := sha256.Sum256(arch[nme])
				emit(map[string]any{"e": "final", "sys": i, "entity": nme, "sha": hex.EncodeToString(sum[:8]), "data": clipS(string(bytes.TrimSpace(arch[nme])), 200)})
			}
			_ = os.Remove(final)
		}
		return map[string]any{"systems": len(specs), "records": n}, nil
	})
}
