// Package nettrace holds the drivers of C29 (networks deliver exactly once), C32
// (traces are well-formed task trees) and C33 (observing does not change the
// simulation).
//
// net.go — C29: real networks built by the mesh, PCIe, NVLink and generic
// connectors carry seeded traffic between device agents; every send at a sender's
// device port and every delivery to / retrieval from a device port is recorded at
// the port hooks, one ndjson record per event, for NetTrace.tla.
package nettrace

import (
	"bufio"
	"encoding/json"
	"fmt"
	"math/rand"
	"os"
	"sort"
	"strconv"

	"github.com/sarchlab/akita/v5/hooking"
	"github.com/sarchlab/akita/v5/messaging"
	"github.com/sarchlab/akita/v5/modeling"
	"github.com/sarchlab/akita/v5/naming"
	"github.com/sarchlab/akita/v5/noc/networking/mesh"
	"github.com/sarchlab/akita/v5/noc/networking/networkconnector"
	"github.com/sarchlab/akita/v5/noc/networking/nvlink"
	"github.com/sarchlab/akita/v5/noc/networking/pcie"
	"github.com/sarchlab/akita/v5/timing"
	"github.com/sarchlab/akita/v5/tracing"

	"verif/harness/internal/reg"
)

// DevSpec is one device agent.
type DevSpec struct {
	Name      string `json:"name"`
	At        []int  `json:"at"`     // mesh: tile coordinates; others: switch index (tree/generic), PCIe switch (nvlink)
	Ports     int    `json:"ports"`  // number of device ports
	In        int    `json:"in"`     // incoming buffer capacity of every port
	Out       int    `json:"out"`    // outgoing buffer capacity of every port
	Drain     int    `json:"drain"`  // messages retrieved per port per tick
	StallFrom int    `json:"stall_from"`
	StallLen  int    `json:"stall_len"` // ticks [StallFrom, StallFrom+StallLen) retrieve nothing (then draining resumes)
	FreqMHz   int    `json:"freq_mhz"`
}

// MsgSpec is one message of the traffic.
type MsgSpec struct {
	Src   string `json:"src"` // sending device port
	Dst   string `json:"dst"` // destination device port
	Bytes int    `json:"bytes"`
	Class string `json:"class"`
	RspTo uint64 `json:"rspto"`
	At    int    `json:"at"` // released at this activation of the sending agent
}

// NetSpec is one network with its traffic (complete: replayable as is).
type NetSpec struct {
	ID      int    `json:"id"`
	Kind    string `json:"kind"`  // mesh | pcie | nvlink | generic
	Class   string `json:"class"` // mesh | tree | other — delivery is demanded for mesh and tree
	Shape   string `json:"shape"` // mesh2d mesh3d tree hybrid ring graph star line
	Name    string `json:"name"`
	FreqMHz int    `json:"freq_mhz"`

	Dims      []int   `json:"dims,omitempty"`
	Bandwidth float64 `json:"bandwidth,omitempty"` // mesh: transfers per cycle
	SwLatency int     `json:"sw_latency"`
	FlitSize  int     `json:"flit_size,omitempty"`  // mesh, generic
	BytesPerS uint64  `json:"bytes_per_s,omitempty"` // pcie / nvlink bandwidth (flit = bandwidth / frequency)

	Parents []int    `json:"parents,omitempty"` // pcie: switch i>0 hangs off Parents[i]; nvlink: number of PCIe switches = len
	NSwitch int      `json:"nswitch,omitempty"` // generic
	Edges   [][2]int `json:"edges,omitempty"`   // generic switch links
	BufSize int      `json:"buf_size,omitempty"`
	Chans   int      `json:"chans,omitempty"`
	Router  string   `json:"router,omitempty"` // generic: floyd | bandwidth
	NVLinks [][3]int `json:"nvlinks,omitempty"` // nvlink: device a, device b, links

	Devices []DevSpec `json:"devices"`
	Msgs    []MsgSpec `json:"msgs"`
	Pattern string    `json:"pattern"`
	MaxTime uint64    `json:"max_time_ps"` // run bound
}

type trafficMsg struct {
	messaging.MsgMeta
	Payload string `json:"payload"`
}

type pendingMsg struct {
	spec MsgSpec
	port messaging.Port
}

type agent struct {
	*modeling.TickingComponent
	spec    DevSpec
	ports   []messaging.Port
	queue   []pendingMsg
	ticks   int
	sent    int
	retr    int
	note    *agentLog // C33: what the device retrieves, when, in order (no hook involved)
}

func (a *agent) Tick() bool {
	a.ticks++
	progress := false
	for len(a.queue) > 0 && a.queue[0].spec.At <= a.ticks {
		pm := a.queue[0]
		if !pm.port.CanSend() {
			break
		}
		id := timing.GetIDGenerator().Generate()
		m := trafficMsg{MsgMeta: messaging.MsgMeta{ID: id, Src: pm.port.AsRemote(), Dst: messaging.RemotePort(pm.spec.Dst),
			TrafficClass: pm.spec.Class, TrafficBytes: pm.spec.Bytes, RspTo: pm.spec.RspTo}, Payload: "p"}
		pm.port.Send(m)
		a.queue = a.queue[1:]
		a.sent++
		progress = true
	}
	if len(a.queue) > 0 && a.queue[0].spec.At > a.ticks {
		progress = true // not yet released: keep ticking
	}
	stalled := a.ticks >= a.spec.StallFrom && a.ticks < a.spec.StallFrom+a.spec.StallLen
	for _, p := range a.ports {
		if stalled {
			if p.NumIncoming() > 0 {
				progress = true // will drain once the stall is over
			}
			continue
		}
		for k := 0; k < a.spec.Drain; k++ {
			msg := p.RetrieveIncoming()
			if msg == nil {
				break
			}
			if a.note != nil {
				m := msg.Meta()
				a.note.out = append(a.note.out, Outcome{Kind: "dlv", Req: m.TrafficBytes, Data: p.Name() + "<" + string(m.Src) + "|" + m.TrafficClass,
					Info: strconv.FormatUint(m.RspTo, 10), T: strconv.FormatUint(uint64(a.CurrentTime()), 10)})
			}
			a.retr++
			progress = true
		}
		if p.NumIncoming() > 0 {
			progress = true
		}
	}
	return progress
}

func metaRec(m messaging.MsgMeta) map[string]any {
	return map[string]any{"id": idNum(m.ID), "src": string(m.Src), "dst": string(m.Dst), "rspto": idNum(m.RspTo),
		"class": m.TrafficClass, "bytes": m.TrafficBytes}
}

// idNum keeps IDs TLC-representable (32-bit); anything larger becomes a string (compared for equality only).
func idNum(id uint64) any {
	if id < 1<<31 {
		return int(id)
	}
	return "#" + strconv.FormatUint(id, 10)
}

type netRecorder struct {
	w      *bufio.Writer
	eng    *timing.SerialEngine
	events int
	sends  int
	recvs  int
	sample []map[string]any
}

func (r *netRecorder) emit(m map[string]any) {
	b, err := json.Marshal(m)
	if err != nil {
		panic(err)
	}
	r.w.Write(b)
	r.w.WriteByte('\n')
	r.events++
	if len(r.sample) < 12 && m["e"] != "net" {
		r.sample = append(r.sample, m)
	}
}

func (r *netRecorder) Func(ctx hooking.HookCtx) {
	p, ok := ctx.Domain.(messaging.Port)
	if !ok {
		return
	}
	msg, ok := ctx.Item.(messaging.Msg)
	if !ok {
		return
	}
	t := strconv.FormatUint(uint64(r.eng.CurrentTime()), 10)
	switch ctx.Pos {
	case messaging.HookPosPortMsgSend:
		r.sends++
		r.emit(map[string]any{"e": "send", "p": p.Name(), "m": metaRec(msg.Meta()), "t": t})
	case messaging.HookPosPortMsgRecvd:
		r.recvs++
		r.emit(map[string]any{"e": "recv", "p": p.Name(), "m": metaRec(msg.Meta()), "t": t})
	}
}

func mhz(n int) timing.Freq { return timing.Freq(n) * timing.MHz }

// builtNetwork is what the C29/C32/C33 drivers get back from buildNetwork.
type builtNetwork struct {
	spec   NetSpec
	eng    *timing.SerialEngine
	agents []*agent
	ports  map[string]messaging.Port
	reg    *collectReg
	stop   func() bool // a recorder may end a runaway run (far more deliveries than messages)
}

// collectReg remembers every component and port the connectors register.
type collectReg struct {
	eng   timing.Engine
	comps []tracing.NamedHookable
	ports []messaging.Port
	seen  map[string]bool
}

func newCollectReg(e timing.Engine) *collectReg {
	return &collectReg{eng: e, seen: map[string]bool{}}
}
func (r *collectReg) GetEngine() timing.Engine { return r.eng }
func (r *collectReg) add(c any) {
	if nh, ok := c.(tracing.NamedHookable); ok && !r.seen[nh.Name()] {
		r.seen[nh.Name()] = true
		r.comps = append(r.comps, nh)
	}
}
func (r *collectReg) RegisterComponent(c naming.Named)  { r.add(c) }
func (r *collectReg) RegisterConnection(c naming.Named) { r.add(c) }
func (r *collectReg) RegisterResource(_ naming.Named)   {}
func (r *collectReg) RegisterPort(p naming.Named) {
	if mp, ok := p.(messaging.Port); ok {
		r.ports = append(r.ports, mp)
	}
}

// buildNetwork builds the network of a NetSpec on a fresh serial engine. visTracer, when
// not nil, is handed to the connector (WithVisTracer) — the library's own way of tracing
// every switch, endpoint and link it builds.
func buildNetwork(ns NetSpec, visTracer tracing.Tracer) *builtNetwork {
	eng := timing.NewSerialEngine()
	bn := &builtNetwork{spec: ns, eng: eng, ports: map[string]messaging.Port{}, reg: newCollectReg(eng)}
	byDev := map[string]*agent{}
	for _, d := range ns.Devices {
		a := &agent{spec: d}
		a.TickingComponent = modeling.NewTickingComponent(d.Name, eng, mhz(d.FreqMHz), a)
		for j := 0; j < d.Ports; j++ {
			p := messaging.NewPort(a, d.In, d.Out, fmt.Sprintf("%s.Port%d", d.Name, j))
			a.ports = append(a.ports, p)
			bn.ports[p.Name()] = p
			bn.reg.ports = append(bn.reg.ports, p)
		}
		bn.agents = append(bn.agents, a)
		bn.reg.add(a)
		byDev[d.Name] = a
	}
	for _, m := range ns.Msgs {
		p := bn.ports[m.Src]
		a := p.Component().(*agent)
		a.queue = append(a.queue, pendingMsg{spec: m, port: p})
	}
	for _, a := range bn.agents {
		sort.SliceStable(a.queue, func(i, j int) bool { return a.queue[i].spec.At < a.queue[j].spec.At })
	}
	freq := mhz(ns.FreqMHz)
	switch ns.Kind {
	case "mesh":
		c := mesh.NewConnector().WithRegistrar(bn.reg).WithFreq(freq).WithSwitchLatency(ns.SwLatency).
			WithBandwidth(ns.Bandwidth).WithFlitSize(ns.FlitSize)
		if visTracer != nil {
			c = c.WithVisTracer(visTracer)
		}
		c.CreateNetwork(ns.Name)
		for _, a := range bn.agents {
			c.AddTile([3]int{a.spec.At[0], a.spec.At[1], a.spec.At[2]}, a.ports)
		}
		c.EstablishNetwork()
	case "pcie":
		c := pcie.NewConnector().WithRegistrar(bn.reg).WithFrequency(freq).WithBandwidth(ns.BytesPerS).WithSwitchLatency(ns.SwLatency)
		if visTracer != nil {
			c = c.WithVisTracer(visTracer)
		}
		c.CreateNetwork(ns.Name)
		ids := make([]int, len(ns.Parents))
		// device 0 sits on the root complex
		ids[0] = c.AddRootComplex(bn.agents[0].ports)
		for i := 1; i < len(ns.Parents); i++ {
			ids[i] = c.AddSwitch(ids[ns.Parents[i]])
		}
		for _, a := range bn.agents[1:] {
			c.PlugInDevice(ids[a.spec.At[0]], a.ports)
		}
		c.EstablishRoute()
	case "nvlink":
		c := nvlink.NewConnector().WithRegistrar(bn.reg).WithFrequency(freq).WithPCIeBandwidth(ns.BytesPerS).
			WithPCIeSwitchLatency(ns.SwLatency).WithNVLinkSwitchLatency(ns.SwLatency)
		if visTracer != nil {
			cc := c.WithVisTracer(visTracer)
			c = &cc
		}
		c.CreateNetwork(ns.Name)
		root := c.AddRootComplex(bn.agents[0].ports)
		sws := make([]int, len(ns.Parents))
		for i := range ns.Parents {
			sws[i] = c.AddPCIeSwitch()
			if ns.Parents[i] < 0 {
				c.ConnectSwitchesWithPCIeLink(root, sws[i])
			} else {
				c.ConnectSwitchesWithPCIeLink(sws[ns.Parents[i]], sws[i])
			}
		}
		devIDs := []int{0}
		for _, a := range bn.agents[1:] {
			devIDs = append(devIDs, c.PlugInDevice(sws[a.spec.At[0]], a.ports))
		}
		for _, l := range ns.NVLinks {
			c.ConnectDevicesWithNVLink(devIDs[l[0]], devIDs[l[1]], l[2])
		}
		c.EstablishRoute()
	case "generic":
		c := networkconnector.MakeConnector().WithRegistrar(bn.reg).WithDefaultFreq(freq).WithFlitSize(ns.FlitSize)
		if ns.Router == "bandwidth" {
			c = c.WithRouter(&networkconnector.BandwidthFirstRouter{FlitSize: ns.FlitSize})
		}
		if visTracer != nil {
			c = c.WithVisTracer(visTracer)
		}
		c.NewNetwork(ns.Name)
		sw := networkconnector.LinkEndSwitchParameter{IncomingBufSize: ns.BufSize, OutgoingBufSize: ns.BufSize,
			NumInputChannel: ns.Chans, NumOutputChannel: ns.Chans, Latency: ns.SwLatency}
		link := networkconnector.LinkParameter{IsIdeal: true, Frequency: freq}
		for i := 0; i < ns.NSwitch; i++ {
			c.AddSwitch()
		}
		for _, e := range ns.Edges {
			c.ConnectSwitches(e[0], e[1], networkconnector.SwitchToSwitchLinkParameter{LeftEndParam: sw, RightEndParam: sw, LinkParam: link})
		}
		for _, a := range bn.agents {
			c.ConnectDevice(a.spec.At[0], a.ports, networkconnector.DeviceToSwitchLinkParameter{
				DeviceEndParam: networkconnector.LinkEndDeviceParameter{IncomingBufSize: ns.BufSize, OutgoingBufSize: ns.BufSize,
					NumInputChannel: ns.Chans, NumOutputChannel: ns.Chans},
				SwitchEndParam: sw, LinkParam: link})
		}
		c.EstablishRoute()
	default:
		panic("unknown network kind " + ns.Kind)
	}
	return bn
}

// errBound is raised by boundHook when the next event lies beyond the run bound.
type errBound struct{}

// boundHook stops a run whose events go past the bound (a livelock would otherwise never return).
type boundHook struct {
	limit timing.VTimeInPicoSec
	stop  func() bool // optional: the observer has seen enough (runaway run)
}

func (h *boundHook) Func(ctx hooking.HookCtx) {
	if ctx.Pos == timing.HookPosBeforeEvent {
		if evt, ok := ctx.Item.(timing.Event); ok && (evt.Time() > h.limit || (h.stop != nil && h.stop())) {
			panic(errBound{})
		}
	}
}

// runBounded runs the engine until no event is left (true) or an event beyond the bound comes up (false).
func runBounded(eng *timing.SerialEngine, limit timing.VTimeInPicoSec) (quiescent bool) {
	defer func() {
		if p := recover(); p != nil {
			if _, ok := p.(errBound); ok {
				quiescent = false
				return
			}
			panic(p)
		}
	}()
	_ = eng.Run()
	return true
}

// run starts every agent and runs to quiescence (or the time bound). It returns
// whether the event queue emptied.
func (bn *builtNetwork) run() (quiescent bool) {
	limit := timing.VTimeInPicoSec(bn.spec.MaxTime)
	if limit == 0 {
		limit = 4_000_000_000_000
	}
	bn.eng.AcceptHook(&boundHook{limit: limit, stop: bn.stop})
	for _, a := range bn.agents {
		a.TickLater()
	}
	return runBounded(bn.eng, limit)
}

// runNet builds, runs and records one network.
func runNet(ns NetSpec, w *bufio.Writer, ic *intConfig) (info map[string]any, sample []map[string]any, events int) {
	timing.ResetIDGenerator()
	timing.UseSequentialIDGenerator()
	bn := buildNetwork(ns, nil)
	rec := &netRecorder{w: w, eng: bn.eng}
	var names []string
	for n := range bn.ports {
		names = append(names, n)
	}
	sort.Strings(names)
	rec.emit(map[string]any{"e": "net", "id": ns.ID, "kind": ns.Kind, "class": ns.Class, "shape": ns.Shape, "ports": names,
		"must": ns.Class == "mesh" || ns.Class == "tree"})
	for _, n := range names {
		bn.ports[n].AcceptHook(rec)
	}
	// a network that delivers many times more than was sent will not come to rest: stop recording it, report it as not quiescent
	bn.stop = func() bool { return rec.recvs > 3*len(ns.Msgs)+200 }
	var obs *netInt
	intLine := 0
	if ic != nil {
		obs = attachInternals(bn, ns.ID, ic.every, ic.max)
		intLine = ic.lines + 1
	}
	quiescent := bn.run()
	unsent, held := 0, 0
	for _, a := range bn.agents {
		unsent += len(a.queue)
		for _, p := range a.ports {
			held += p.NumIncoming()
		}
	}
	if obs != nil {
		// settled: the engine has nothing left, every message was sent and delivered, the devices hold nothing
		obs.finish(ic, quiescent && unsent == 0 && held == 0 && rec.sends == rec.recvs)
	}
	rec.emit(map[string]any{"e": "quiesce", "t": strconv.FormatUint(uint64(bn.eng.CurrentTime()), 10), "quiescent": quiescent,
		"unsent": unsent, "held": held, "drained": held == 0 && quiescent})
	info = map[string]any{"id": ns.ID, "kind": ns.Kind, "class": ns.Class, "shape": ns.Shape, "sent": rec.sends, "delivered": rec.recvs,
		"unsent": unsent, "held": held, "quiescent": quiescent, "end_ps": uint64(bn.eng.CurrentTime()), "msgs": len(ns.Msgs),
		"devices": len(ns.Devices)}
	if obs != nil {
		info["int_line"], info["int_lines"] = intLine, ic.lines+1-intLine
	}
	return info, rec.sample, rec.events
}

// ---------------------------------------------------------------- generation

func pick[T any](rng *rand.Rand, xs ...T) T { return xs[rng.Intn(len(xs))] }

func genDevices(rng *rand.Rand, n int, place func(i int) []int) []DevSpec {
	devs := make([]DevSpec, n)
	for i := range devs {
		d := DevSpec{Name: fmt.Sprintf("D%d", i), At: place(i), Ports: 1, In: pick(rng, 1, 1, 2, 4), Out: pick(rng, 1, 1, 2, 4),
			Drain: pick(rng, 1, 1, 2, 4), FreqMHz: pick(rng, 1000, 1000, 1000, 500, 2000)}
		if rng.Intn(4) == 0 {
			d.Ports = 2 + rng.Intn(2)
		}
		if rng.Intn(4) == 0 {
			d.StallFrom, d.StallLen = 1+rng.Intn(40), 1+rng.Intn(200)
		}
		devs[i] = d
	}
	return devs
}

func genBytes(rng *rand.Rand, flit int) int {
	switch rng.Intn(10) {
	case 0:
		return 0
	case 1:
		return flit * (1 + rng.Intn(4)) // exact multiples
	case 2:
		return flit*(1+rng.Intn(4)) + pick(rng, -1, 1)
	case 3, 4, 5, 6:
		return 1 + rng.Intn(2*flit)
	case 7, 8:
		return 1 + rng.Intn(8*flit)
	default:
		return 1 + rng.Intn(40*flit)
	}
}

var trafficClasses = []string{"", "memprotocol.ReadReq", "memprotocol.DataReadyRsp", "ctl", "x y"}

func genTraffic(rng *rand.Rand, ns *NetSpec, n int, flit int) {
	var ports []string
	portsOf := map[string][]string{}
	for _, d := range ns.Devices {
		for j := 0; j < d.Ports; j++ {
			pn := fmt.Sprintf("%s.Port%d", d.Name, j)
			ports = append(ports, pn)
			portsOf[d.Name] = append(portsOf[d.Name], pn)
		}
	}
	pattern := pick(rng, "uniform", "uniform", "hotspot", "neighbour", "permutation", "burst", "selfdevice")
	ns.Pattern = pattern
	hot := ports[rng.Intn(len(ports))]
	perm := rng.Perm(len(ports))
	var prev uint64
	for i := 0; i < n; i++ {
		si := rng.Intn(len(ports))
		src := ports[si]
		var dst string
		switch pattern {
		case "hotspot":
			if rng.Intn(3) != 0 {
				dst = hot
			}
		case "neighbour":
			dst = ports[(si+1)%len(ports)]
		case "permutation":
			dst = ports[perm[si]]
		case "selfdevice":
			// another port of the sending device, when it has one
			dev := src[:len(src)-len(".Port0")]
			if ps := portsOf[dev]; len(ps) > 1 && rng.Intn(2) == 0 {
				dst = ps[rng.Intn(len(ps))]
			}
		}
		for dst == "" || dst == src {
			dst = ports[rng.Intn(len(ports))]
		}
		m := MsgSpec{Src: src, Dst: dst, Bytes: genBytes(rng, flit), Class: pick(rng, trafficClasses...)}
		if rng.Intn(3) == 0 {
			m.RspTo = prev + uint64(rng.Intn(5))
		}
		prev = uint64(i + 1)
		switch pattern {
		case "burst":
			m.At = 1 + (i/32)*pick(rng, 50, 200)
		default:
			m.At = 1 + rng.Intn(1+n/4)
		}
		ns.Msgs = append(ns.Msgs, m)
	}
}

func randomTreeParents(rng *rand.Rand, n int, root int) []int {
	ps := make([]int, n)
	ps[0] = root
	for i := 1; i < n; i++ {
		ps[i] = rng.Intn(i)
	}
	return ps
}

// genNet draws network number i of a run.
func genNet(rng *rand.Rand, i, msgs int) NetSpec {
	ns := NetSpec{ID: i, Name: fmt.Sprintf("N%d", i), FreqMHz: pick(rng, 1000, 1000, 500, 2000), SwLatency: pick(rng, 0, 1, 1, 2, 5)}
	flit := 16
	switch i % 8 {
	case 0, 4: // 2D mesh
		ns.Kind, ns.Class, ns.Shape = "mesh", "mesh", "mesh2d"
		ns.Dims = []int{1 + rng.Intn(4), 1 + rng.Intn(4), 1}
		if ns.Dims[0]*ns.Dims[1] == 1 {
			ns.Dims[0] = 2
		}
		if i%8 == 4 && rng.Intn(4) == 0 {
			// a long thin mesh: longer than the connector's initial grid capacity (8), so the grid is resized
			ns.Dims = []int{9 + rng.Intn(2), 1, 1}
			if rng.Intn(2) == 0 {
				ns.Dims[0], ns.Dims[1] = 1, ns.Dims[0]
			}
		}
	case 1: // 3D mesh
		ns.Kind, ns.Class, ns.Shape = "mesh", "mesh", "mesh3d"
		ns.Dims = []int{1 + rng.Intn(3), 1 + rng.Intn(3), 2 + rng.Intn(2)}
	case 2: // PCIe tree
		ns.Kind, ns.Class, ns.Shape = "pcie", "tree", "tree"
	case 3: // NVLink / PCIe hybrid
		ns.Kind, ns.Shape = "nvlink", "hybrid"
	case 5: // generic: ring
		ns.Kind, ns.Class, ns.Shape = "generic", "other", "ring"
	case 6: // generic: tree / star / line
		ns.Kind, ns.Class, ns.Shape = "generic", "tree", pick(rng, "tree", "star", "line")
	case 7: // generic: random connected graph
		ns.Kind, ns.Shape = "generic", "graph"
	}
	switch ns.Kind {
	case "mesh":
		ns.Bandwidth = pick(rng, 1, 1, 2, 0.5, 4)
		ns.FlitSize = pick(rng, 8, 16, 16, 32, 64)
		flit = ns.FlitSize
		var coords [][]int
		for x := 0; x < ns.Dims[0]; x++ {
			for y := 0; y < ns.Dims[1]; y++ {
				for z := 0; z < ns.Dims[2]; z++ {
					coords = append(coords, []int{x, y, z})
				}
			}
		}
		// a few tiles may stay without a device (the far corner always has one, so that the grid has the drawn size)
		keep := coords[:0:0]
		for k, c := range coords {
			if k == len(coords)-1 || k == 0 || rng.Intn(6) != 0 {
				keep = append(keep, c)
			}
		}
		rng.Shuffle(len(keep), func(a, b int) { keep[a], keep[b] = keep[b], keep[a] })
		ns.Devices = genDevices(rng, len(keep), func(k int) []int { return keep[k] })
	case "pcie":
		nsw := 1 + rng.Intn(4)
		ns.Parents = randomTreeParents(rng, nsw, 0)
		ns.BytesPerS = pick(rng, uint64(16)<<30, uint64(32)<<30, uint64(8)<<30, 64_000_000_000)
		flit = int(float64(ns.BytesPerS)/float64(mhz(ns.FreqMHz)) + 0.5)
		ns.SwLatency = pick(rng, 0, 1, 3, 140)
		ndev := 2 + rng.Intn(6)
		ns.Devices = genDevices(rng, ndev, func(k int) []int { return []int{rng.Intn(nsw)} })
		ns.Devices[0].At = []int{0}
	case "nvlink":
		nsw := 1 + rng.Intn(3)
		ns.Parents = make([]int, nsw)
		for k := range ns.Parents {
			ns.Parents[k] = -1
			if k > 0 && rng.Intn(2) == 0 {
				ns.Parents[k] = rng.Intn(k)
			}
		}
		ns.BytesPerS = pick(rng, uint64(16)<<30, uint64(32)<<30)
		flit = int(float64(ns.BytesPerS)/float64(mhz(ns.FreqMHz)) + 0.5)
		ns.SwLatency = pick(rng, 0, 1, 3, 20)
		ndev := 3 + rng.Intn(5)
		ns.Devices = genDevices(rng, ndev, func(k int) []int { return []int{rng.Intn(nsw)} })
		nl := rng.Intn(ndev)
		for k := 0; k < nl; k++ {
			a, b := 1+rng.Intn(ndev-1), 1+rng.Intn(ndev-1)
			if a != b {
				ns.NVLinks = append(ns.NVLinks, [3]int{a, b, 1 + rng.Intn(2)})
			}
		}
		ns.Class = "other"
		if len(ns.NVLinks) == 0 {
			ns.Class = "tree"
		}
	case "generic":
		ns.FlitSize = pick(rng, 8, 16, 32, 64)
		flit = ns.FlitSize
		ns.BufSize = pick(rng, 1, 1, 2, 4, 16)
		ns.Chans = pick(rng, 1, 1, 2)
		ns.Router = pick(rng, "floyd", "floyd", "bandwidth")
		n := 2 + rng.Intn(5)
		switch ns.Shape {
		case "ring":
			n = 3 + rng.Intn(4)
			for k := 0; k < n; k++ {
				ns.Edges = append(ns.Edges, [2]int{k, (k + 1) % n})
			}
		case "star":
			for k := 1; k < n; k++ {
				ns.Edges = append(ns.Edges, [2]int{0, k})
			}
		case "line":
			for k := 1; k < n; k++ {
				ns.Edges = append(ns.Edges, [2]int{k - 1, k})
			}
		case "tree":
			for k := 1; k < n; k++ {
				ns.Edges = append(ns.Edges, [2]int{rng.Intn(k), k})
			}
		case "graph":
			for k := 1; k < n; k++ {
				ns.Edges = append(ns.Edges, [2]int{rng.Intn(k), k})
			}
			extra := rng.Intn(n)
			have := map[[2]int]bool{}
			for _, e := range ns.Edges {
				have[e] = true
			}
			for k := 0; k < extra; k++ {
				a, b := rng.Intn(n), rng.Intn(n)
				if a > b {
					a, b = b, a
				}
				if a != b && !have[[2]int{a, b}] {
					have[[2]int{a, b}] = true
					ns.Edges = append(ns.Edges, [2]int{a, b})
				}
			}
			ns.Class = "other"
			if len(ns.Edges) == n-1 {
				ns.Class = "tree"
			}
		}
		ns.NSwitch = n
		ndev := 2 + rng.Intn(6)
		ns.Devices = genDevices(rng, ndev, func(k int) []int { return []int{rng.Intn(n)} })
	}
	genTraffic(rng, &ns, msgs, flit)
	// run bound: a thousand times what the traffic needs through a single link at the slowest clock
	flits, maxAt := 0, 0
	for _, m := range ns.Msgs {
		flits += (m.Bytes+m.Bytes/4)/max(flit, 1) + 2
		maxAt = max(maxAt, m.At)
	}
	ns.MaxTime = uint64(flits*200+maxAt*8+400000) * 2000
	return ns
}

func init() {
	messaging.RegisterMsg(trafficMsg{})
	// net_trace: seeded (or given) networks run on the real code, recorded for NetTrace.tla
	reg.Register("net_trace", func(raw json.RawMessage) (any, error) {
		var in struct {
			Seed     int64     `json:"seed"`
			Networks int       `json:"networks"`
			Msgs     int       `json:"msgs"`
			First    int       `json:"first"` // index of the first generated network (chunks of one run)
			Specs    []NetSpec `json:"specs"`
			Out      string    `json:"out"`
			// internals: project the State of every switch / endpoint after every N-th handled event (SwitchInternals.tla)
			IntEvery int    `json:"internals_every"`
			IntMax   int    `json:"internals_max"`
			IntOut   string `json:"int_out"`
		}
		if err := json.Unmarshal(raw, &in); err != nil {
			return nil, err
		}
		var ic *intConfig
		if in.IntEvery > 0 && in.IntOut != "" {
			fi, err := os.Create(in.IntOut)
			if err != nil {
				return nil, err
			}
			defer fi.Close()
			ic = &intConfig{every: in.IntEvery, max: in.IntMax, w: bufio.NewWriterSize(fi, 1<<20), drifts: map[IntDrift]bool{}, stats: map[string]int{}}
			defer ic.w.Flush()
		}
		specs := in.Specs
		for i := 0; i < in.Networks; i++ {
			k := in.First + i
			rng := rand.New(rand.NewSource(in.Seed*1000003 + int64(k)))
			n := in.Msgs/2 + rng.Intn(in.Msgs+1)
			specs = append(specs, genNet(rng, k, n))
		}
		f, err := os.Create(in.Out)
		if err != nil {
			return nil, err
		}
		defer f.Close()
		w := bufio.NewWriterSize(f, 1<<20)
		defer w.Flush()
		var infos []map[string]any
		var starts []int
		var sample []map[string]any
		line, events := 1, 0
		for _, ns := range specs {
			starts = append(starts, line)
			info, smp, n := runNet(ns, w, ic)
			infos = append(infos, info)
			line += n
			events += n
			if sample == nil {
				sample = smp
			}
		}
		res := map[string]any{"networks": len(specs), "events": events, "infos": infos, "starts": starts, "sample": sample, "specs": specs}
		if ic != nil {
			res["drifts"], res["int_stats"] = sortedDrifts(ic.drifts), ic.stats
		}
		return res, nil
	})
}
