package nettrace

// observe.go — C33: every assembly is run bare and with every combination of
// observers {engine hook, component tracers, buffer tracing, DB tracer over SQLite};
// the requester-visible outcome stream (kind, data, simulated time, in order; IDs
// erased) plus the final storage contents are written, one record per run, for
// Observe.tla to compare against the bare run.

import (
	"bufio"
	"encoding/json"
	"fmt"
	"math/rand"
	"os"
	"path/filepath"
	"strconv"

	"github.com/sarchlab/akita/v5/datarecording"
	"github.com/sarchlab/akita/v5/hooking"
	"github.com/sarchlab/akita/v5/messaging"
	"github.com/sarchlab/akita/v5/timing"
	"github.com/sarchlab/akita/v5/tracing"

	"verif/harness/internal/reg"
)

const (
	obsEngineHook = 1 << iota
	obsTracers
	obsBuffers
	obsDB
)

func variantName(v int) string {
	if v == 0 {
		return "bare"
	}
	s := ""
	for i, n := range []string{"engine", "tracers", "buffers", "db"} {
		if v&(1<<i) != 0 {
			if s != "" {
				s += "+"
			}
			s += n
		}
	}
	return s
}

type countingHook struct{ n int }

func (h *countingHook) Func(_ hooking.HookCtx) { h.n++ }

func always(tracing.TaskStart) bool { return true }

// observers attaches the observers of a variant. It returns a function that shuts them
// down (closing and deleting the database) and a function reporting how much they saw —
// an observer that saw nothing would make the comparison vacuous.
func attachObservers(v int, eng *timing.SerialEngine, comps []tracing.NamedHookable, ports []messaging.Port, scratch, tag string) (closeFn func(), seenFn func() map[string]int) {
	eh := &countingHook{}
	log := &traceLog{}
	var busy []*tracing.BusyTimeTracer
	var tags []*tracing.TagCountTracer
	var db *tracing.DBTracer
	var rec datarecording.DataRecorder
	dbFile := ""
	dbBytes := 0
	if v&obsEngineHook != 0 {
		eng.AcceptHook(eh)
	}
	if v&obsTracers != 0 {
		for _, c := range comps {
			tracing.CollectTrace(c, &recTracer{comp: c.Name(), log: log})
			b := tracing.NewBusyTimeTracer(always)
			tracing.CollectTrace(c, b)
			busy = append(busy, b)
			tracing.CollectTrace(c, tracing.NewAverageTimeTracer(always))
			tracing.CollectTrace(c, tracing.NewTotalTimeTracer(always))
			tg := tracing.NewTagCountTracer(always)
			tracing.CollectTrace(c, tg)
			tags = append(tags, tg)
		}
	}
	if v&obsBuffers != 0 {
		for _, p := range ports {
			tracing.CollectIncomingBufferTrace(p)
			tracing.CollectOutgoingBufferTrace(p)
		}
	}
	if v&obsDB != 0 {
		base := filepath.Join(scratch, "c33_"+tag)
		dbFile = base + ".sqlite3"
		rec = datarecording.NewDataRecorder(base)
		db = tracing.NewDBTracer(eng, rec)
		db.StartTracing()
		for _, c := range comps {
			tracing.CollectTrace(c, db)
		}
	}
	closeFn = func() {
		if db != nil {
			db.Terminate()
			_ = rec.Close()
			if st, err := os.Stat(dbFile); err == nil {
				dbBytes = int(st.Size())
			}
			_ = os.Remove(dbFile)
		}
	}
	seenFn = func() map[string]int {
		m := map[string]int{"engine_events": eh.n, "task_events": len(log.events)}
		if dbFile != "" {
			m["db_bytes"] = dbBytes
		}
		return m
	}
	return closeFn, seenFn
}

type obsRun struct {
	Asm     int       `json:"asm"`
	Kind    string    `json:"kind"`
	Variant int       `json:"variant"`
	VName   string    `json:"vname"`
	Obs     []Outcome `json:"obs"`
	Final   string    `json:"final"`
	EndT    string    `json:"end_t"`
	Panic   string    `json:"panic,omitempty"`
	Seen    map[string]int `json:"seen"`
}

func runStackObserved(cfg StackCfg, v int, scratch string) (r obsRun) {
	r = obsRun{Asm: cfg.ID, Kind: cfg.Kind, Variant: v, VName: variantName(v)}
	var s *stack
	closeFn, seenFn := func() {}, func() map[string]int { return nil }
	func() {
		defer func() {
			if p := recover(); p != nil {
				r.Panic = fmt.Sprint(p)
			}
		}()
		s = buildStack(cfg)
		closeFn, seenFn = attachObservers(v, s.eng, s.allComps(), s.allPorts(), scratch, fmt.Sprintf("s%d_v%d", cfg.ID, v))
		s.rq.TickLater()
		_ = s.eng.RunUntil(s.limit())
	}()
	if s != nil {
		r.Obs = s.rq.outcomes
		if r.Panic == "" {
			r.Final = s.storageDigest()
		}
		r.EndT = strconv.FormatUint(uint64(s.eng.CurrentTime()), 10)
	}
	func() {
		defer func() { _ = recover() }()
		closeFn()
	}()
	r.Seen = seenFn()
	return r
}

// agentLog makes a device agent note what it retrieves (hook-free: the bare run has no hook anywhere).
type agentLog struct {
	out []Outcome
}

func runNetObserved(ns NetSpec, v int, scratch string) (r obsRun) {
	r = obsRun{Asm: ns.ID, Kind: "net-" + ns.Kind, Variant: v, VName: variantName(v)}
	var bn *builtNetwork
	closeFn, seenFn := func() {}, func() map[string]int { return nil }
	alog := &agentLog{}
	func() {
		defer func() {
			if p := recover(); p != nil {
				r.Panic = fmt.Sprint(p)
			}
		}()
		bn = buildNetwork(ns, nil)
		for _, a := range bn.agents {
			a.note = alog
		}
		closeFn, seenFn = attachObservers(v, bn.eng, bn.reg.comps, bn.reg.ports, scratch, fmt.Sprintf("n%d_v%d", ns.ID, v))
		for _, a := range bn.agents {
			a.TickLater()
		}
		limit := timing.VTimeInPicoSec(ns.MaxTime)
		if limit == 0 {
			limit = 4_000_000_000_000
		}
		_ = bn.eng.RunUntil(limit)
	}()
	if bn != nil {
		r.Obs = alog.out
		unsent := 0
		for _, a := range bn.agents {
			unsent += len(a.queue)
		}
		r.Final = fmt.Sprintf("unsent=%d", unsent)
		r.EndT = strconv.FormatUint(uint64(bn.eng.CurrentTime()), 10)
	}
	func() {
		defer func() { _ = recover() }()
		closeFn()
	}()
	r.Seen = seenFn()
	return r
}

func init() {
	// observe: every assembly bare and under every observer combination, for Observe.tla
	reg.Register("observe", func(raw json.RawMessage) (any, error) {
		var in struct {
			Seed     int64      `json:"seed"`
			Stacks   int        `json:"stacks"`
			Nets     int        `json:"nets"`
			Ops      int        `json:"ops"`
			Msgs     int        `json:"msgs"`
			First    int        `json:"first"`
			Variants []int      `json:"variants"` // default: all 16
			Cfgs     []StackCfg `json:"cfgs"`
			Specs    []NetSpec  `json:"specs"`
			Out      string     `json:"out"`
			Scratch  string     `json:"scratch"`
		}
		if err := json.Unmarshal(raw, &in); err != nil {
			return nil, err
		}
		if in.Scratch == "" {
			in.Scratch = filepath.Dir(in.Out)
		}
		variants := in.Variants
		if len(variants) == 0 {
			for v := 0; v < 16; v++ {
				variants = append(variants, v)
			}
		}
		f, err := os.Create(in.Out)
		if err != nil {
			return nil, err
		}
		defer f.Close()
		w := bufio.NewWriterSize(f, 1<<20)
		defer w.Flush()
		cfgs := in.Cfgs
		for i := 0; i < in.Stacks; i++ {
			k := in.First + i
			rng := rand.New(rand.NewSource(in.Seed*15485863 + int64(k)))
			mode := []string{"none", "soft", "mixed", "none", "reset"}[k%5]
			cfgs = append(cfgs, genStack(rng, k, in.Ops, mode))
		}
		specs := in.Specs
		for i := 0; i < in.Nets; i++ {
			k := in.First + i
			rng := rand.New(rand.NewSource(in.Seed*32452843 + int64(k)))
			ns := genNet(rng, k, in.Msgs/2+rng.Intn(in.Msgs+1))
			for j := range ns.Msgs {
				if ns.Msgs[j].Bytes > 300 {
					ns.Msgs[j].Bytes = ns.Msgs[j].Bytes % 300
				}
			}
			specs = append(specs, ns)
		}
		timing.ResetIDGenerator()
		timing.UseSequentialIDGenerator()
		var infos []map[string]any
		var replays []any
		runs, outcomes := 0, 0
		emit := func(r obsRun, asmIdx int) {
			rec := map[string]any{"asm": asmIdx, "kind": r.Kind, "variant": r.Variant, "vname": r.VName, "obs": r.Obs, "final": r.Final,
				"end_t": r.EndT, "panic": r.Panic}
			if r.Obs == nil {
				rec["obs"] = []Outcome{}
			}
			b, _ := json.Marshal(rec)
			w.Write(b)
			w.WriteByte('\n')
			runs++
			outcomes += len(r.Obs)
			infos = append(infos, map[string]any{"asm": asmIdx, "kind": r.Kind, "variant": r.VName, "outcomes": len(r.Obs), "end_t": r.EndT,
				"panic": r.Panic, "seen": r.Seen})
		}
		asm := 0
		for _, c := range cfgs {
			for _, v := range variants {
				emit(runStackObserved(c, v, in.Scratch), asm)
			}
			replays = append(replays, map[string]any{"stack": c})
			asm++
		}
		for _, ns := range specs {
			for _, v := range variants {
				emit(runNetObserved(ns, v, in.Scratch), asm)
			}
			replays = append(replays, map[string]any{"net": ns})
			asm++
		}
		return map[string]any{"assemblies": asm, "runs": runs, "outcomes": outcomes, "infos": infos, "replays": replays, "variants": variants}, nil
	})
}
