package nettrace

// internals.go — projection of the State of every switch and endpoint of a C29 network for
// spec/noc/SwitchInternals.tla (rules that go beyond the C29 statement: consistency
// conditions of the implementation's own State).
//
// The State of every switch and endpoint is taken in the form a checkpoint stores it
// (SaveCheckpoint -> JSON) after every N-th handled engine event (capped, thinned out) and
// once more when the engine has stopped, and projected to one small uniform record per
// component. Fields are read by their JSON names only: a missing field makes the part
// DRIFT (reported, the rules that need it are skipped for that kind) — never a failure.
// A few parts need more than one State: counters kept at the ports' hooks (flits taken in /
// sent out by a switch, sequence numbers an endpoint has retrieved per message) and, for
// the arbitration rule, the forward-buffer heads of a switch before and after each of its
// own ticks (during a bounded window of the run).
//
// Record: {"e":"state","run":network id,"n":events handled,"final":bool,"settled":bool,"comps":[COMP...]}
//
//	COMP(switch)   = {"name","kind":"switch","have":[...],
//	   "bufs":[{"name","cap","n"}], "pipes":[{"name","width","stages","items":[{"lane","stage"}]}],
//	   "flits":[flit IDs held anywhere inside], "tasks":[task IDs of the same items],
//	   "recv","sent","held",                      port-hook counters and number of items held
//	   "arb":{"cursor","nports","max_skip","ticks"},
//	   "routed":[{"out","want"}],                 items queued for an output port: index queued for / index the routing table names
//	   "route_to":[{"to","dst"}]}                 RouteTo of an item / Dst of the message its flit carries
//	COMP(endpoint) = {"name","kind":"endpoint","have":[...],
//	   "asm":[{"id","arrived","required","seen"}], "assembled":[{"id","done","first"}],
//	   "nout","nflits"}                           messages waiting for packetization, flits waiting to be sent

import (
	"bufio"
	"bytes"
	"encoding/json"
	"io"
	"sort"
	"strings"

	"github.com/sarchlab/akita/v5/hooking"
	"github.com/sarchlab/akita/v5/messaging"
	"github.com/sarchlab/akita/v5/noc/networking/routing"
	"github.com/sarchlab/akita/v5/noc/networking/switching/switches"
	"github.com/sarchlab/akita/v5/timing"
)

type jm = map[string]any

// IntDrift is one field of a State the projection needs and did not find.
type IntDrift struct {
	Kind  string `json:"kind"`
	Part  string `json:"part"`
	Field string `json:"field"`
}

type ckSaver interface {
	SaveCheckpoint(w io.Writer) error
}

type intComp struct {
	name  string
	kind  string // switch | endpoint
	saver ckSaver
	table routing.Table // switch: nil when the routing table could not be reached

	// switch
	recv, sent int
	prevHeads  []float64 // forward-buffer heads after the previous own tick (flit ID, 0 = empty)
	skips      []int
	maxSkip    int
	ticks      int

	// endpoint
	seen    map[float64]map[float64]bool // message ID -> sequence numbers retrieved
	first   map[float64]int              // message ID -> arrival index of its first flit
	done    map[float64][2]int           // message ID -> (own tick at which the last flit arrived, first)
	arrival int
}

type netInt struct {
	run     int
	every   int
	n       int
	maxRecs int
	arbLeft int // handled switch ticks still tracked for the arbitration rule
	comps   []*intComp
	byName  map[string]*intComp
	recs    []jm
	drift   map[IntDrift]bool
	stats   map[string]int
}

// intConfig is set by the net_trace driver when internals are requested.
type intConfig struct {
	every  int
	max    int
	w      *bufio.Writer
	drifts map[IntDrift]bool
	stats  map[string]int
	lines  int
}

func (o *netInt) missing(kind, part, field string) {
	o.drift[IntDrift{kind, part, field}] = true
}

func attachInternals(bn *builtNetwork, run, every, maxRecs int) *netInt {
	if maxRecs <= 0 {
		maxRecs = 10
	}
	o := &netInt{run: run, every: every, maxRecs: maxRecs, arbLeft: 2500, byName: map[string]*intComp{}, drift: map[IntDrift]bool{}, stats: map[string]int{}}
	for _, c := range bn.reg.comps {
		kind := compType(c.Name(), nil)
		if kind != "switch" && kind != "endpoint" {
			continue
		}
		sv, ok := c.(ckSaver)
		if !ok {
			o.missing(kind, "state", "SaveCheckpoint")
			continue
		}
		ic := &intComp{name: c.Name(), kind: kind, saver: sv, seen: map[float64]map[float64]bool{}, first: map[float64]int{}, done: map[float64][2]int{}}
		if kind == "switch" {
			if sw, ok := c.(*switches.Comp); ok {
				func() {
					defer func() {
						if recover() != nil {
							o.missing("switch", "routed", "routing table")
						}
					}()
					ic.table = switches.GetRoutingTable(sw)
				}()
			} else {
				o.missing("switch", "routed", "*switches.Comp")
			}
		}
		o.comps = append(o.comps, ic)
		o.byName[ic.name] = ic
	}
	for _, p := range bn.reg.ports {
		if owner := p.Component(); owner != nil {
			if _, ok := o.byName[owner.Name()]; ok {
				p.AcceptHook(o)
			}
		}
	}
	bn.eng.AcceptHook(o)
	return o
}

func num(v any) (float64, bool) {
	f, ok := v.(float64)
	return f, ok
}

// Func: port hooks (counters) and engine hook (sampling, per-tick arbitration tracking).
func (o *netInt) Func(ctx hooking.HookCtx) {
	switch ctx.Pos {
	case messaging.HookPosPortMsgRetrieveIncoming, messaging.HookPosPortMsgSend:
		p, ok := ctx.Domain.(messaging.Port)
		if !ok || p.Component() == nil {
			return
		}
		ic := o.byName[p.Component().Name()]
		if ic == nil {
			return
		}
		if ctx.Pos == messaging.HookPosPortMsgSend {
			ic.sent++
			return
		}
		ic.recv++
		if ic.kind == "endpoint" {
			o.noteFlit(ic, ctx.Item)
		}
	case timing.HookPosBeforeEvent:
		if evt, ok := ctx.Item.(timing.Event); ok {
			if ic := o.byName[evt.HandlerID()]; ic != nil {
				ic.ticks++
			}
		}
	case timing.HookPosAfterEvent:
		o.n++
		if evt, ok := ctx.Item.(timing.Event); ok && o.arbLeft > 0 {
			if ic := o.byName[evt.HandlerID()]; ic != nil && ic.kind == "switch" {
				o.arbLeft--
				o.trackArbitration(ic)
			}
		}
		if o.n%o.every == 0 {
			if len(o.recs) >= o.maxRecs {
				kept := o.recs[:0]
				for i, r := range o.recs {
					if i%2 == 1 {
						kept = append(kept, r)
					}
				}
				o.recs = kept
				o.every *= 2
				if o.n%o.every != 0 {
					return
				}
			}
			o.sample(false, false)
		}
	}
}

// noteFlit reads a retrieved flit through its JSON form (field names only).
func (o *netInt) noteFlit(ic *intComp, item any) {
	f := toJM(item)
	msg, _ := f["msg"].(jm)
	id, ok1 := num(msg["ID"])
	seq, ok2 := num(f["seq_id"])
	req, ok3 := num(f["num_flit_in_msg"])
	if !ok1 || !ok2 || !ok3 {
		o.missing("endpoint", "seen", "flit.msg.ID / seq_id / num_flit_in_msg")
		return
	}
	if ic.seen[id] == nil {
		ic.seen[id] = map[float64]bool{}
		ic.arrival++
		ic.first[id] = ic.arrival
	}
	ic.seen[id][seq] = true
	if _, fin := ic.done[id]; !fin && len(ic.seen[id]) >= int(req) {
		ic.done[id] = [2]int{ic.ticks, ic.first[id]}
	}
}

func toJM(v any) jm {
	b, err := json.Marshal(v)
	if err != nil {
		return nil
	}
	var m jm
	if json.Unmarshal(b, &m) != nil {
		return nil
	}
	return m
}

func (o *netInt) stateOf(ic *intComp) jm {
	var buf bytes.Buffer
	if err := ic.saver.SaveCheckpoint(&buf); err != nil {
		o.missing(ic.kind, "state", "SaveCheckpoint: "+err.Error())
		return nil
	}
	var ck jm
	if json.Unmarshal(buf.Bytes(), &ck) != nil {
		o.missing(ic.kind, "state", "checkpoint JSON")
		return nil
	}
	st, ok := ck["state"].(jm)
	if !ok {
		o.missing(ic.kind, "state", "state")
		return nil
	}
	return st
}

func elems(buf any) ([]any, float64, bool) {
	b, ok := buf.(jm)
	if !ok {
		return nil, 0, false
	}
	c, ok := num(b["cap"])
	if !ok {
		return nil, 0, false
	}
	es, _ := b["elements"].([]any) // null when empty
	return es, c, true
}

// outputIndex finds the port complex the routing table names for dst.
func outputIndex(table routing.Table, pcs []any, dst string) (idx int, ok bool) {
	defer func() {
		if recover() != nil {
			idx, ok = -1, false
		}
	}()
	out := string(table.FindPort(messaging.RemotePort(dst)))
	for i, p := range pcs {
		pc, _ := p.(jm)
		if pc["local_port_name"] == out || pc["remote_port"] == out {
			return i, true
		}
	}
	return -1, true
}

// trackArbitration compares the forward-buffer heads before and after one tick of a switch.
func (o *netInt) trackArbitration(ic *intComp) {
	st := o.stateOf(ic)
	if st == nil {
		return
	}
	pcs, ok := st["port_complexes"].([]any)
	if !ok {
		o.missing("switch", "arb_track", "port_complexes")
		return
	}
	if len(ic.prevHeads) != len(pcs) {
		ic.prevHeads = make([]float64, len(pcs))
		ic.skips = make([]int, len(pcs))
	}
	room := make([]bool, len(pcs))
	for i, p := range pcs {
		pc, _ := p.(jm)
		es, c, ok := elems(pc["send_out_buffer"])
		if !ok {
			o.missing("switch", "arb_track", "send_out_buffer")
			return
		}
		room[i] = float64(len(es)) < c
	}
	for i, p := range pcs {
		pc, _ := p.(jm)
		es, _, ok := elems(pc["forward_buffer"])
		if !ok {
			o.missing("switch", "arb_track", "forward_buffer")
			return
		}
		head, out := 0.0, -1
		if len(es) > 0 {
			it, _ := es[0].(jm)
			head, _ = num(it["ID"])
			if v, ok := num(it["output_buf_idx"]); ok {
				out = int(v)
			}
		}
		if head != 0 && head == ic.prevHeads[i] && out >= 0 && out < len(room) && room[out] {
			ic.skips[i]++
			if ic.skips[i] > ic.maxSkip {
				ic.maxSkip = ic.skips[i]
			}
		} else {
			ic.skips[i] = 0
		}
		ic.prevHeads[i] = head
	}
}

func (o *netInt) projectSwitch(ic *intComp, st jm) jm {
	c := jm{"name": ic.name, "kind": "switch", "bufs": []any{}, "pipes": []any{}, "flits": []any{}, "tasks": []any{}, "recv": ic.recv, "sent": ic.sent,
		"held": 0, "arb": jm{"cursor": 0, "nports": 1, "max_skip": 0, "ticks": ic.ticks}, "routed": []any{}, "route_to": []any{},
		"asm": []any{}, "assembled": []any{}, "nout": 0, "nflits": 0}
	have := []string{}
	pcs, ok := st["port_complexes"].([]any)
	if !ok {
		o.missing("switch", "bufs", "port_complexes")
		c["have"] = have
		return c
	}
	var bufs, pipes, flits, tasks, routed, routeTo []any
	held := 0
	okBufs, okPipes, okFlits, okRouted, okRouteTo := true, true, true, ic.table != nil, true
	item := func(x any, where string, outIdx int) {
		it, _ := x.(jm)
		id, ok1 := num(it["ID"])
		task, ok2 := num(it["task_id"])
		if !ok1 || !ok2 {
			okFlits = false
			o.missing("switch", "flits", "ID / task_id")
		}
		flits = append(flits, id)
		tasks = append(tasks, task)
		held++
		msg, _ := it["msg"].(jm)
		dst, ok3 := msg["Dst"].(string)
		to, ok4 := it["route_to"].(string)
		if !ok3 || !ok4 {
			okRouteTo = false
			o.missing("switch", "route_to", "route_to / msg.Dst")
		} else {
			routeTo = append(routeTo, jm{"to": to, "dst": dst})
		}
		if where == "forward" || where == "send" {
			out := outIdx
			if where == "forward" {
				v, ok := num(it["output_buf_idx"])
				if !ok {
					okRouted = false
					o.missing("switch", "routed", "output_buf_idx")
					return
				}
				out = int(v)
			}
			if ic.table != nil && ok3 {
				want, ok := outputIndex(ic.table, pcs, dst)
				if !ok {
					okRouted = false
					o.missing("switch", "routed", "FindPort")
					return
				}
				routed = append(routed, jm{"out": out, "want": want})
			}
		}
	}
	for i, p := range pcs {
		pc, _ := p.(jm)
		for _, bn := range []string{"route_buffer", "forward_buffer", "send_out_buffer"} {
			es, capy, ok := elems(pc[bn])
			if !ok {
				okBufs = false
				o.missing("switch", "bufs", bn)
				continue
			}
			bufs = append(bufs, jm{"name": bn, "cap": capy, "n": len(es)})
			where := map[string]string{"route_buffer": "route", "forward_buffer": "forward", "send_out_buffer": "send"}[bn]
			for _, x := range es {
				item(x, where, i)
			}
			o.stats["buffer_items"] += len(es)
		}
		pl, ok := pc["pipeline"].(jm)
		w, ok1 := num(pl["width"])
		ns, ok2 := num(pl["num_stages"])
		if !ok || !ok1 || !ok2 {
			okPipes = false
			o.missing("switch", "pipes", "pipeline.width / num_stages")
			continue
		}
		stages, _ := pl["stages"].([]any)
		var items []any
		for _, s := range stages {
			sg, _ := s.(jm)
			lane, ok1 := num(sg["lane"])
			stage, ok2 := num(sg["stage"])
			if !ok1 || !ok2 {
				okPipes = false
				o.missing("switch", "pipes", "stages.lane / stage")
				continue
			}
			items = append(items, jm{"lane": lane, "stage": stage})
			item(sg["item"], "pipeline", i)
		}
		if items == nil {
			items = []any{}
		}
		pipes = append(pipes, jm{"name": "pipeline", "width": w, "stages": ns, "items": items})
		o.stats["pipeline_items"] += len(items)
	}
	setList := func(k string, v []any) {
		if v == nil {
			v = []any{}
		}
		c[k] = v
	}
	setList("bufs", bufs)
	setList("pipes", pipes)
	setList("flits", flits)
	setList("tasks", tasks)
	setList("routed", routed)
	setList("route_to", routeTo)
	c["held"] = held
	if okBufs {
		have = append(have, "bufs")
	}
	if okPipes {
		have = append(have, "pipes")
	}
	if okFlits {
		have = append(have, "flits")
	}
	if okBufs && okPipes {
		have = append(have, "counts")
	}
	if okRouted {
		have = append(have, "routed")
	}
	if okRouteTo {
		have = append(have, "route_to")
	}
	if cur, ok := num(st["next_arb_port"]); ok {
		c["arb"] = jm{"cursor": cur, "nports": len(pcs), "max_skip": ic.maxSkip, "ticks": ic.ticks}
		have = append(have, "arb")
		if _, bad := o.drift[IntDrift{"switch", "arb_track", "forward_buffer"}]; !bad {
			have = append(have, "arb_track")
		}
	} else {
		o.missing("switch", "arb", "next_arb_port")
	}
	c["have"] = have
	return c
}

func (o *netInt) projectEndpoint(ic *intComp, st jm) jm {
	c := jm{"name": ic.name, "kind": "endpoint", "bufs": []any{}, "pipes": []any{}, "flits": []any{}, "tasks": []any{}, "recv": ic.recv, "sent": ic.sent,
		"held": 0, "arb": jm{"cursor": 0, "nports": 1, "max_skip": 0, "ticks": ic.ticks}, "routed": []any{}, "route_to": []any{},
		"asm": []any{}, "assembled": []any{}, "nout": 0, "nflits": 0}
	have := []string{}
	asmOK, seenOK := true, true
	if _, bad := o.drift[IntDrift{"endpoint", "seen", "flit.msg.ID / seq_id / num_flit_in_msg"}]; bad {
		seenOK = false
	}
	raw, present := st["assembling_msgs"]
	if !present {
		asmOK = false
		o.missing("endpoint", "asm", "assembling_msgs")
	}
	var asm []any
	if l, _ := raw.([]any); asmOK {
		for _, x := range l {
			a, _ := x.(jm)
			id, ok1 := num(a["msg_id"])
			arr, ok2 := num(a["num_flit_arrived"])
			req, ok3 := num(a["num_flit_required"])
			if !ok1 || !ok2 || !ok3 {
				asmOK = false
				o.missing("endpoint", "asm", "msg_id / num_flit_arrived / num_flit_required")
				break
			}
			asm = append(asm, jm{"id": id, "arrived": arr, "required": req, "seen": len(ic.seen[id])})
		}
		o.stats["assembling_entries"] += len(asm)
	}
	if asm == nil {
		asm = []any{}
	}
	c["asm"] = asm
	if asmOK {
		have = append(have, "asm")
		if seenOK {
			have = append(have, "seen")
		}
	}
	rawA, present := st["assembled_msgs"]
	if present {
		var out []any
		l, _ := rawA.([]any)
		okA := true
		for _, x := range l {
			m, _ := x.(jm)
			id, ok := num(m["ID"])
			if !ok {
				okA = false
				o.missing("endpoint", "assembled", "assembled_msgs.ID")
				break
			}
			d, known := ic.done[id]
			if !known {
				d = [2]int{-1, -1}
			}
			out = append(out, jm{"id": id, "done": d[0], "first": d[1]})
		}
		if out == nil {
			out = []any{}
		}
		c["assembled"] = out
		if okA {
			have = append(have, "assembled")
			if seenOK {
				have = append(have, "assembled_order")
			}
		}
		o.stats["assembled_waiting"] += len(out)
	} else {
		o.missing("endpoint", "assembled", "assembled_msgs")
	}
	mo, p1 := st["msg_out_buf"]
	fs, p2 := st["flits_to_send"]
	if p1 && p2 {
		l1, _ := mo.([]any)
		l2, _ := fs.([]any)
		c["nout"], c["nflits"] = len(l1), len(l2)
		have = append(have, "outgoing")
	} else {
		o.missing("endpoint", "outgoing", "msg_out_buf / flits_to_send")
	}
	c["have"] = have
	return c
}

func (o *netInt) sample(final, settled bool) {
	rec := jm{"e": "state", "run": o.run, "n": o.n, "final": final, "settled": settled}
	var comps []any
	for _, ic := range o.comps {
		st := o.stateOf(ic)
		if st == nil {
			continue
		}
		if ic.kind == "switch" {
			comps = append(comps, o.projectSwitch(ic, st))
		} else {
			comps = append(comps, o.projectEndpoint(ic, st))
		}
	}
	if comps == nil {
		comps = []any{}
	}
	rec["comps"] = comps
	o.recs = append(o.recs, rec)
}

// finish takes the last sample and writes the run's records.
func (o *netInt) finish(cfg *intConfig, settled bool) {
	o.sample(true, settled)
	for _, r := range o.recs {
		b, err := json.Marshal(r)
		if err != nil {
			continue
		}
		cfg.w.Write(b)
		cfg.w.WriteByte('\n')
		cfg.lines++
		cfg.stats["samples"]++
		cfg.stats["components"] += len(r["comps"].([]any))
		if r["settled"] == true {
			cfg.stats["settled_samples"]++
		}
	}
	maxSkip, tracked := 0, 0
	for _, ic := range o.comps {
		if ic.kind == "switch" {
			tracked += ic.ticks
			if ic.maxSkip > maxSkip {
				maxSkip = ic.maxSkip
			}
		}
	}
	if maxSkip > cfg.stats["max_arbitration_skips"] {
		cfg.stats["max_arbitration_skips"] = maxSkip
	}
	cfg.stats["switch_ticks"] += tracked
	for k, v := range o.stats {
		cfg.stats[k] += v
	}
	for d := range o.drift {
		cfg.drifts[d] = true
	}
}

func sortedDrifts(m map[IntDrift]bool) []IntDrift {
	var out []IntDrift
	for d := range m {
		out = append(out, d)
	}
	sort.Slice(out, func(i, j int) bool {
		return strings.Join([]string{out[i].Kind, out[i].Part, out[i].Field}, "|") < strings.Join([]string{out[j].Kind, out[j].Part, out[j].Field}, "|")
	})
	return out
}
