package nettrace

// stack.go — the memory assemblies shared by the C32 (task traces) and C33
// (observation streams) drivers: a scripted requester on top of real library
// components, every link a real direct connection, one control connection to every
// Control port. Self-contained on purpose (built from the exported builders only).

import (
	"crypto/sha256"
	"encoding/hex"
	"fmt"
	"math/rand"

	"github.com/sarchlab/akita/v5/mem"
	"github.com/sarchlab/akita/v5/mem/cache/writeback"
	"github.com/sarchlab/akita/v5/mem/cache/writethroughcache"
	"github.com/sarchlab/akita/v5/mem/dram"
	"github.com/sarchlab/akita/v5/mem/idealmemcontroller"
	"github.com/sarchlab/akita/v5/mem/memcontrolprotocol"
	"github.com/sarchlab/akita/v5/mem/memprotocol"
	"github.com/sarchlab/akita/v5/mem/rob"
	"github.com/sarchlab/akita/v5/mem/simplebankedmemory"
	"github.com/sarchlab/akita/v5/mem/vm"
	"github.com/sarchlab/akita/v5/mem/vm/addresstranslator"
	"github.com/sarchlab/akita/v5/mem/vm/mmu"
	"github.com/sarchlab/akita/v5/mem/vm/tlb"
	"github.com/sarchlab/akita/v5/messaging"
	"github.com/sarchlab/akita/v5/modeling"
	"github.com/sarchlab/akita/v5/noc/directconnection"
	"github.com/sarchlab/akita/v5/timing"
	"github.com/sarchlab/akita/v5/tracing"
)

// CtlCmd is one control verb sent to one component (or a pause of N requester ticks).
type CtlCmd struct {
	Cmd    string `json:"cmd"`    // pause drain enable reset invalidate flush | wait
	Target string `json:"target"` // component name
	N      int    `json:"n,omitempty"`
}

// CtlStep is a sequence of control commands issued (each after the previous one's ack)
// once After data requests have been sent. New data requests are held until the step
// is over. A step with a reset resets every component of the stack (see genCtl).
type CtlStep struct {
	After int      `json:"after"`
	// StallTick > 0: the step starts instead once the requester has not been retrieving for that many ticks
	// (a reset while answers cannot be delivered upwards)
	StallTick int      `json:"stall_tick,omitempty"`
	Cmds      []CtlCmd `json:"cmds"`
}

// StackCfg is one assembly with its workload (complete: replayable as is).
type StackCfg struct {
	ID      int    `json:"id"`
	Kind    string `json:"kind"` // ideal | dram | banked | wb | wt | l1l2 | vm | rob | xlat
	Leaf    string `json:"leaf"` // ideal | dram | banked (the memory at the bottom)
	Policy  string `json:"policy,omitempty"`
	Seed    int64  `json:"seed"`
	Ops     int    `json:"ops"`
	Window  int    `json:"window"`
	Lines   int    `json:"lines"` // the workload touches 64-byte lines 0..Lines-1
	WriteP  float64 `json:"write_p"`
	PortBuf int    `json:"port_buf"`
	MemLat  int    `json:"mem_lat"`
	Sets    int    `json:"sets"`
	Ways    int    `json:"ways"`
	MSHR    int    `json:"mshr"`
	BankLat int    `json:"bank_lat"`
	DirLat  int    `json:"dir_lat"`
	TLBLat  int    `json:"tlb_lat"`
	Ctl     []CtlStep `json:"ctl"`
	MaxTime uint64 `json:"max_time_ps"`
	// rob: what the reorder buffer sits on ("wb" | "wt": hits overtake misses, so answers come back out of order)
	Lower string `json:"lower,omitempty"`
	// the requester retrieves nothing from its port during ticks [ReqStallFrom, ReqStallFrom+ReqStallLen): the Top port
	// of the first component fills up, so answered requests cannot be delivered
	ReqStallFrom int `json:"req_stall_from,omitempty"`
	ReqStallLen  int `json:"req_stall_len,omitempty"`
	// ReqStallAfterSent > 0: the stall starts instead when that many requests have been sent
	ReqStallAfterSent int `json:"req_stall_after_sent,omitempty"`
}

type stackComp interface {
	tracing.NamedHookable
	messaging.Component
	TickLater()
}

type reqOp struct {
	write bool
	addr  uint64
	size  int
	mask  bool
}

// Outcome is one requester-visible event (the C33 fingerprint stream; IDs erased:
// a response names the index of the request it answers).
type Outcome struct {
	Kind string `json:"k"`           // read | write | ctl | stray
	Req  int    `json:"r"`           // request index / control command index
	Data string `json:"d,omitempty"` // hex of the data of a read response
	Info string `json:"i,omitempty"` // control: "cmd:success:error"
	T    string `json:"t"`           // simulated time, ps
}

type requester struct {
	*modeling.Component[struct{}, struct{}, modeling.None]
	cfg   *StackCfg
	out   messaging.Port
	ctl   messaging.Port
	top   messaging.RemotePort
	ctlOf map[string]messaging.RemotePort
	ops   []reqOp
	rng   *rand.Rand

	sent        int
	pending     map[uint64]int // request message ID -> request index
	dropped     map[uint64]int // forgotten by a reset; a late answer is still an outcome
	stepIdx     int
	cmdIdx      int
	inStep      bool
	hadReset    bool
	waitLeft    int
	ctlPending  uint64
	ctlCount    int
	outcomes    []Outcome
	answered    int
	strays      int
	refusedCtl  int
	ticks       int
	stallStart  int // tick at which a sent-count-triggered stall began (0: not yet)
	stalledFor  int
}

var verbs = map[string]memcontrolprotocol.Command{
	"pause": memcontrolprotocol.CmdPause, "drain": memcontrolprotocol.CmdDrain, "enable": memcontrolprotocol.CmdEnable,
	"reset": memcontrolprotocol.CmdReset, "invalidate": memcontrolprotocol.CmdInvalidate, "flush": memcontrolprotocol.CmdFlush,
}

func (r *requester) now() string { return fmt.Sprint(uint64(r.CurrentTime())) }

func (r *requester) idle() bool {
	return r.sent >= len(r.ops) && len(r.pending) == 0 && !r.inStep && r.stepIdx >= len(r.cfg.Ctl)
}

// Tick implements modeling.Middleware.
func (r *requester) Tick() bool {
	progress := false
	r.ticks++
	stalled := r.ticks >= r.cfg.ReqStallFrom && r.ticks < r.cfg.ReqStallFrom+r.cfg.ReqStallLen
	if r.cfg.ReqStallAfterSent > 0 {
		if r.stallStart == 0 && r.sent >= r.cfg.ReqStallAfterSent {
			r.stallStart = r.ticks
		}
		stalled = r.stallStart > 0 && r.ticks < r.stallStart+r.cfg.ReqStallLen
	}
	if stalled {
		r.stalledFor++
		progress = true // keeps ticking; retrieving resumes after the stall
	}
	for !stalled {
		msg := r.out.RetrieveIncoming()
		if msg == nil {
			break
		}
		progress = true
		meta := msg.Meta()
		idx, ok := r.pending[meta.RspTo]
		kind := ""
		if ok {
			delete(r.pending, meta.RspTo)
			r.answered++
		} else if idx, ok = r.dropped[meta.RspTo]; ok {
			delete(r.dropped, meta.RspTo)
			kind = "late-"
		} else {
			r.strays++
			r.outcomes = append(r.outcomes, Outcome{Kind: "stray", Req: -1, T: r.now()})
			continue
		}
		switch m := msg.(type) {
		case memprotocol.DataReadyRsp:
			r.outcomes = append(r.outcomes, Outcome{Kind: kind + "read", Req: idx, Data: hex.EncodeToString(m.Data), T: r.now()})
		case memprotocol.WriteDoneRsp:
			r.outcomes = append(r.outcomes, Outcome{Kind: kind + "write", Req: idx, T: r.now()})
		default:
			r.outcomes = append(r.outcomes, Outcome{Kind: kind + fmt.Sprintf("%T", msg), Req: idx, T: r.now()})
		}
	}
	for {
		msg := r.ctl.RetrieveIncoming()
		if msg == nil {
			break
		}
		progress = true
		if rsp, ok := msg.(memcontrolprotocol.Rsp); ok {
			if rsp.RspTo == r.ctlPending {
				r.ctlPending = 0
			}
			if !rsp.Success {
				r.refusedCtl++
			}
			r.outcomes = append(r.outcomes, Outcome{Kind: "ctl", Req: r.ctlCount,
				Info: fmt.Sprintf("%d:%v:%s", int(rsp.Command), rsp.Success, rsp.Error), T: r.now()})
		}
	}
	// control script
	for {
		if !r.inStep {
			if r.stepIdx < len(r.cfg.Ctl) && ((r.cfg.Ctl[r.stepIdx].StallTick == 0 && r.cfg.Ctl[r.stepIdx].After <= r.sent) ||
				(r.cfg.Ctl[r.stepIdx].StallTick > 0 && (r.stalledFor >= r.cfg.Ctl[r.stepIdx].StallTick || r.sent >= len(r.ops)))) {
				r.inStep, r.cmdIdx, r.hadReset = true, 0, false
				progress = true
			} else {
				break
			}
		}
		if r.ctlPending != 0 {
			break
		}
		if r.waitLeft > 0 {
			r.waitLeft--
			progress = true
			break
		}
		step := r.cfg.Ctl[r.stepIdx]
		if r.cmdIdx >= len(step.Cmds) {
			if r.hadReset {
				// whatever was in flight is gone; a late answer is accepted as such
				for id, idx := range r.pending {
					r.dropped[id] = idx
				}
				r.pending = map[uint64]int{}
			}
			r.inStep = false
			r.stepIdx++
			progress = true
			continue
		}
		c := step.Cmds[r.cmdIdx]
		if c.Cmd == "wait" {
			r.waitLeft = c.N
			r.cmdIdx++
			progress = true
			continue
		}
		if !r.ctl.CanSend() {
			break
		}
		req := memcontrolprotocol.Req{Command: verbs[c.Cmd]}
		req.ID = timing.GetIDGenerator().Generate()
		req.Src = r.ctl.AsRemote()
		req.Dst = r.ctlOf[c.Target]
		req.TrafficClass = "memcontrolprotocol.Req"
		r.ctl.Send(req)
		r.ctlPending = req.ID
		r.ctlCount++
		if c.Cmd == "reset" {
			r.hadReset = true
		}
		r.cmdIdx++
		progress = true
	}
	// data requests
	for !r.inStep && r.sent < len(r.ops) && len(r.pending) < r.cfg.Window && r.out.CanSend() {
		op := r.ops[r.sent]
		id := timing.GetIDGenerator().Generate()
		if op.write {
			req := memprotocol.WriteReq{Address: op.addr, PID: 1, Data: make([]byte, op.size)}
			for i := range req.Data {
				req.Data[i] = byte(r.sent*7 + i*13 + 1)
			}
			if op.mask {
				req.DirtyMask = make([]bool, op.size)
				for i := range req.DirtyMask {
					req.DirtyMask[i] = (i+r.sent)%3 != 0
				}
			}
			req.ID, req.Src, req.Dst = id, r.out.AsRemote(), r.top
			req.TrafficBytes, req.TrafficClass = op.size+12, "memprotocol.WriteReq"
			r.out.Send(req)
		} else {
			req := memprotocol.ReadReq{Address: op.addr, PID: 1, AccessByteSize: uint64(op.size)}
			req.ID, req.Src, req.Dst = id, r.out.AsRemote(), r.top
			req.TrafficBytes, req.TrafficClass = 12, "memprotocol.ReadReq"
			r.out.Send(req)
		}
		r.pending[id] = r.sent
		r.sent++
		progress = true
	}
	return progress
}

func genOps(c *StackCfg, rng *rand.Rand) []reqOp {
	ops := make([]reqOp, c.Ops)
	for i := range ops {
		line := uint64(rng.Intn(c.Lines))
		o := reqOp{write: rng.Float64() < c.WriteP}
		switch rng.Intn(4) {
		case 0:
			o.addr, o.size = line*64, 64
		case 1:
			o.addr, o.size = line*64+uint64(rng.Intn(16))*4, 4
		case 2:
			o.addr, o.size = line*64+uint64(rng.Intn(2))*32, 32
		default:
			o.addr, o.size = line*64+uint64(rng.Intn(8))*8, 8
		}
		if o.write && rng.Intn(4) == 0 {
			o.mask = true
		}
		ops[i] = o
	}
	return ops
}

// stack is a built assembly.
type stack struct {
	cfg      StackCfg
	eng      *timing.SerialEngine
	reg      *collectReg
	rq       *requester
	comps    []stackComp // library components, top to bottom (requester excluded)
	conns    []*directconnection.Comp
	storage  *mem.Storage
	storeLen uint64
}

func (s *stack) mkPort(comp messaging.Component, name string, n int) messaging.Port {
	return modeling.MakePortBuilder().WithRegistrar(s.reg).WithComponent(comp).
		WithSpec(modeling.PortSpec{BufSize: n}).Build(name)
}

func (s *stack) assign(c stackComp, names ...string) {
	for _, n := range names {
		c.AssignPort(n, s.mkPort(c, n, s.cfg.PortBuf))
	}
	s.comps = append(s.comps, c)
}

func (s *stack) connect(name string, ports ...messaging.Port) {
	cn := directconnection.MakeBuilder().WithRegistrar(s.reg).Build(name)
	for _, p := range ports {
		cn.PlugIn(p)
	}
	s.conns = append(s.conns, cn)
}

func (s *stack) buildLeaf(name string) stackComp {
	c := &s.cfg
	capacity := uint64(1 << 20)
	s.storage = mem.MakeStorageBuilder().WithCapacity(capacity).WithUnitSize(4096).WithSimulation(s.reg).Build(name + ".Storage")
	s.storeLen = uint64(c.Lines)*64 + 0x100000 + 4096
	if s.storeLen > capacity {
		s.storeLen = capacity
	}
	switch c.Leaf {
	case "dram":
		sp := dram.DefaultSpec()
		sp.Freq = 1 * timing.GHz
		m := dram.MakeBuilder().WithRegistrar(s.reg).WithSpec(sp).WithResources(dram.Resources{Storage: s.storage}).Build(name)
		s.assign(m, "Top", "Control")
		return m
	case "banked":
		sp := simplebankedmemory.DefaultSpec()
		sp.Capacity = capacity
		sp.NumBanks = 2
		sp.StageLatency = max(1, c.MemLat/2)
		sp.BankPipelineDepth = 2
		sp.PostPipelineBufSize = 2
		m := simplebankedmemory.MakeBuilder().WithRegistrar(s.reg).WithSpec(sp).
			WithResources(simplebankedmemory.Resources{Storage: s.storage}).Build(name)
		s.assign(m, "Top", "Control")
		return m
	default:
		sp := idealmemcontroller.DefaultSpec()
		sp.Latency = c.MemLat
		sp.Capacity = capacity
		sp.Width = 2
		m := idealmemcontroller.MakeBuilder().WithRegistrar(s.reg).WithSpec(sp).
			WithResources(idealmemcontroller.Resources{Storage: s.storage}).Build(name)
		s.assign(m, "Top", "Control")
		return m
	}
}

func (s *stack) buildWB(name string, below messaging.RemotePort) stackComp {
	c := &s.cfg
	sp := writeback.DefaultSpec()
	sp.TotalByteSize = uint64(c.Sets * c.Ways * 64)
	sp.WayAssociativity = c.Ways
	sp.Log2BlockSize = 6
	sp.NumMSHREntry = c.MSHR
	sp.BankLatency = c.BankLat
	sp.DirLatency = c.DirLat
	sp.NumReqPerCycle = 2
	sp.NumBanks = 1
	sp.WriteBufferCapacity = 4
	sp.MaxInflightFetch = 2
	sp.MaxInflightEviction = 2
	cc := writeback.MakeBuilder().WithRegistrar(s.reg).WithSpec(sp).
		WithResources(writeback.Resources{AddressToPortMapper: &mem.SinglePortMapper{Port: below}}).Build(name)
	s.assign(cc, "Top", "Bottom", "Control")
	return cc
}

func (s *stack) buildWT(name, policy string, below messaging.RemotePort) stackComp {
	c := &s.cfg
	sp := writethroughcache.DefaultSpec()
	sp.TotalByteSize = uint64(c.Sets * c.Ways * 64)
	sp.WayAssociativity = c.Ways
	sp.Log2BlockSize = 6
	sp.NumMSHREntry = c.MSHR
	sp.BankLatency = c.BankLat
	sp.DirLatency = max(1, c.DirLat) // 0 is not a configuration the write-through directory pipeline can run
	sp.NumReqPerCycle = 2
	sp.NumBanks = 1
	sp.MaxNumConcurrentTrans = 8
	sp.WritePolicyType = policy
	cc := writethroughcache.MakeBuilder().WithRegistrar(s.reg).WithSpec(sp).
		WithResources(writethroughcache.Resources{AddressMapper: &mem.SinglePortMapper{Port: below}}).Build(name)
	s.assign(cc, "Top", "Bottom", "Control")
	return cc
}

func top(c stackComp) messaging.Port    { return c.GetPortByName("Top") }
func bottom(c stackComp) messaging.Port { return c.GetPortByName("Bottom") }

// buildStack builds the assembly of cfg on a fresh serial engine.
func buildStack(cfg StackCfg) *stack {
	eng := timing.NewSerialEngine()
	s := &stack{cfg: cfg, eng: eng, reg: newCollectReg(eng)}
	c := &s.cfg
	rng := rand.New(rand.NewSource(cfg.Seed))
	rq := &requester{cfg: c, rng: rng, pending: map[uint64]int{}, dropped: map[uint64]int{}, ctlOf: map[string]messaging.RemotePort{}}
	rq.ops = genOps(c, rng)
	rq.Component = modeling.NewBuilder[struct{}, struct{}, modeling.None]().
		WithEngine(eng).WithFreq(1 * timing.GHz).WithSpec(struct{}{}).Build("Requester")
	rq.AddMiddleware(rq)
	rq.DeclarePort("Out", memprotocol.Requester)
	rq.DeclarePort("Ctl", memcontrolprotocol.Requester)
	rq.out = s.mkPort(rq, "Out", max(c.PortBuf, 2))
	rq.ctl = s.mkPort(rq, "Ctl", 2)
	rq.AssignPort("Out", rq.out)
	rq.AssignPort("Ctl", rq.ctl)
	s.reg.add(rq.Component)
	s.rq = rq

	var first stackComp
	switch c.Kind {
	case "ideal", "dram", "banked":
		first = s.buildLeaf("Mem")
		s.connect("ConnTop", rq.out, top(first))
	case "wb":
		leaf := s.buildLeaf("Mem")
		first = s.buildWB("Cache", top(leaf).AsRemote())
		s.comps[0], s.comps[1] = s.comps[1], s.comps[0]
		s.connect("ConnTop", rq.out, top(first))
		s.connect("ConnBottom", bottom(first), top(leaf))
	case "wt":
		leaf := s.buildLeaf("Mem")
		first = s.buildWT("Cache", c.Policy, top(leaf).AsRemote())
		s.comps[0], s.comps[1] = s.comps[1], s.comps[0]
		s.connect("ConnTop", rq.out, top(first))
		s.connect("ConnBottom", bottom(first), top(leaf))
	case "rob":
		leaf := s.buildLeaf("Mem")
		var cache stackComp
		if c.Lower == "wt" {
			cache = s.buildWT("Cache", c.Policy, top(leaf).AsRemote())
		} else {
			cache = s.buildWB("Cache", top(leaf).AsRemote())
		}
		rsp := rob.DefaultSpec()
		rsp.NumReqPerCycle = 2
		rsp.BufferSize = 16
		rsp.BottomUnit = top(cache).AsRemote()
		rb := rob.MakeBuilder().WithRegistrar(s.reg).WithSpec(rsp).Build("ROB")
		s.assign(rb, "Top", "Bottom", "Control")
		first = rb
		s.comps = []stackComp{rb, cache, leaf}
		s.connect("ConnTop", rq.out, top(rb))
		s.connect("ConnROB", bottom(rb), top(cache))
		s.connect("ConnBottom", bottom(cache), top(leaf))
	case "l1l2":
		leaf := s.buildLeaf("Mem")
		l2 := s.buildWB("L2", top(leaf).AsRemote())
		first = s.buildWT("L1", c.Policy, top(l2).AsRemote())
		s.comps = []stackComp{first, l2, leaf}
		s.connect("ConnTop", rq.out, top(first))
		s.connect("ConnL1L2", bottom(first), top(l2))
		s.connect("ConnBottom", bottom(l2), top(leaf))
	case "xlat":
		// an address translator straight under the requester, over a slow translation side (TLB with a one-entry MSHR,
		// slow MMU with one walk in flight) and a plain memory; every port holds one message, requests come in bursts
		// to many distinct pages: the Translation and Bottom ports are back-pressured while requests wait at the head of Top
		leaf := s.buildLeaf("Mem")
		pt := vm.MakePageTableBuilder().WithSimulation(s.reg).WithLog2PageSize(12).Build("PageTable")
		npages := (uint64(c.Lines)*64-1)/4096 + 1
		for i := uint64(0); i < npages; i++ {
			pt.Insert(vm.Page{PID: 1, VAddr: i * 4096, PAddr: 0x100000/2 + i*4096, PageSize: 4096, Valid: true})
		}
		msp := mmu.DefaultSpec()
		msp.Latency = 10 + c.MemLat
		msp.MaxRequestsInFlight = 1
		mm := mmu.MakeBuilder().WithRegistrar(s.reg).WithSpec(msp).WithResources(mmu.Resources{PageTable: pt}).Build("MMU")
		s.assign(mm, "Top", "Control")
		tsp := tlb.DefaultSpec()
		tsp.NumSets, tsp.NumWays, tsp.MSHRSize, tsp.Latency, tsp.NumReqPerCycle = 1, 2, 1, c.TLBLat, 1
		tl := tlb.MakeBuilder().WithRegistrar(s.reg).WithSpec(tsp).
			WithResources(tlb.Resources{TranslationProviderMapper: &mem.SinglePortMapper{Port: top(mm).AsRemote()}}).Build("TLB")
		s.assign(tl, "Top", "Bottom", "Control")
		asp := addresstranslator.DefaultSpec()
		asp.NumReqPerCycle = 4
		at := addresstranslator.MakeBuilder().WithRegistrar(s.reg).WithSpec(asp).
			WithResources(addresstranslator.Resources{
				MemProviderMapper:         &mem.SinglePortMapper{Port: top(leaf).AsRemote()},
				TranslationProviderMapper: &mem.SinglePortMapper{Port: top(tl).AsRemote()},
			}).Build("AT")
		s.assign(at, "Top", "Bottom", "Translation", "Control")
		first = at
		s.comps = []stackComp{at, tl, mm, leaf}
		s.connect("ConnTop", rq.out, top(at))
		s.connect("ConnXlat", at.GetPortByName("Translation"), top(tl))
		s.connect("ConnTLB", bottom(tl), top(mm))
		s.connect("ConnAT", bottom(at), top(leaf))
	case "vm":
		leaf := s.buildLeaf("Mem")
		l2 := s.buildWB("L2", top(leaf).AsRemote())
		l1 := s.buildWT("L1", c.Policy, top(l2).AsRemote())
		pt := vm.MakePageTableBuilder().WithSimulation(s.reg).WithLog2PageSize(12).Build("PageTable")
		npages := (uint64(c.Lines)*64-1)/4096 + 1
		for i := uint64(0); i < npages; i++ {
			pt.Insert(vm.Page{PID: 1, VAddr: i * 4096, PAddr: 0x100000/2 + i*4096, PageSize: 4096, Valid: true})
		}
		msp := mmu.DefaultSpec()
		msp.Latency = 5
		msp.MaxRequestsInFlight = 4
		mm := mmu.MakeBuilder().WithRegistrar(s.reg).WithSpec(msp).WithResources(mmu.Resources{PageTable: pt}).Build("MMU")
		s.assign(mm, "Top", "Control")
		tsp := tlb.DefaultSpec()
		tsp.NumSets, tsp.NumWays, tsp.MSHRSize, tsp.Latency, tsp.NumReqPerCycle = 1, 2, 2, c.TLBLat, 2
		tl := tlb.MakeBuilder().WithRegistrar(s.reg).WithSpec(tsp).
			WithResources(tlb.Resources{TranslationProviderMapper: &mem.SinglePortMapper{Port: top(mm).AsRemote()}}).Build("TLB")
		s.assign(tl, "Top", "Bottom", "Control")
		asp := addresstranslator.DefaultSpec()
		asp.NumReqPerCycle = 2
		at := addresstranslator.MakeBuilder().WithRegistrar(s.reg).WithSpec(asp).
			WithResources(addresstranslator.Resources{
				MemProviderMapper:         &mem.SinglePortMapper{Port: top(l1).AsRemote()},
				TranslationProviderMapper: &mem.SinglePortMapper{Port: top(tl).AsRemote()},
			}).Build("AT")
		s.assign(at, "Top", "Bottom", "Translation", "Control")
		rsp := rob.DefaultSpec()
		rsp.NumReqPerCycle = 2
		rsp.BufferSize = 8
		rsp.BottomUnit = top(at).AsRemote()
		rb := rob.MakeBuilder().WithRegistrar(s.reg).WithSpec(rsp).Build("ROB")
		s.assign(rb, "Top", "Bottom", "Control")
		first = rb
		// reset / control order: top to bottom, translation side after the data side it feeds
		s.comps = []stackComp{rb, at, tl, mm, l1, l2, leaf}
		s.connect("ConnTop", rq.out, top(rb))
		s.connect("ConnROB", bottom(rb), top(at))
		s.connect("ConnXlat", at.GetPortByName("Translation"), top(tl))
		s.connect("ConnTLB", bottom(tl), top(mm))
		s.connect("ConnAT", bottom(at), top(l1))
		s.connect("ConnL1L2", bottom(l1), top(l2))
		s.connect("ConnBottom", bottom(l2), top(leaf))
	default:
		panic("unknown stack kind " + c.Kind)
	}
	rq.top = top(first).AsRemote()
	ctlPorts := []messaging.Port{rq.ctl}
	for _, comp := range s.comps {
		p := comp.GetPortByName("Control")
		rq.ctlOf[comp.Name()] = p.AsRemote()
		ctlPorts = append(ctlPorts, p)
	}
	s.connect("ConnCtl", ctlPorts...)
	return s
}

// allPorts lists every port of the assembly (requester's included).
func (s *stack) allPorts() []messaging.Port { return s.reg.ports }

// allComps lists every hookable component and connection (requester's included).
func (s *stack) allComps() []tracing.NamedHookable { return s.reg.comps }

func (s *stack) limit() timing.VTimeInPicoSec {
	if s.cfg.MaxTime != 0 {
		return timing.VTimeInPicoSec(s.cfg.MaxTime)
	}
	return timing.VTimeInPicoSec(uint64(s.cfg.Ops+50)*200_000_000 + 2_000_000_000)
}

// kick re-arms every component (used when a run went quiet with work left: a wake-up
// lost somewhere is C09's business, not that of the properties checked here).
func (s *stack) kick() {
	s.rq.TickLater()
	for _, c := range s.comps {
		c.TickLater()
	}
	for _, cn := range s.conns {
		cn.TickLater()
	}
}

// storageDigest fingerprints the final contents of the backing storage.
func (s *stack) storageDigest() string {
	h := sha256.New()
	for a := uint64(0); a < s.storeLen; a += 4096 {
		n := uint64(4096)
		if a+n > s.storeLen {
			n = s.storeLen - a
		}
		b, err := s.storage.Read(a, n)
		if err != nil {
			return "read error: " + err.Error()
		}
		h.Write(b)
	}
	return hex.EncodeToString(h.Sum(nil))
}

// ---------------------------------------------------------------- generation

var stackKinds = []string{"ideal", "wb", "wt", "l1l2", "vm", "rob", "dram", "banked", "wb", "wt", "rob", "l1l2", "xlat"}

// genStack draws assembly number i of a run; ctlMode: none | soft (no reset) | reset | mixed.
func genStack(rng *rand.Rand, i, ops int, ctlMode string) StackCfg {
	c := StackCfg{ID: i, Kind: stackKinds[i%len(stackKinds)], Leaf: "ideal", Seed: rng.Int63(), Ops: ops/2 + rng.Intn(ops+1),
		Window: pick(rng, 1, 2, 4, 8), Lines: pick(rng, 6, 12, 40, 200), WriteP: pick(rng, 0.2, 0.5, 0.8),
		PortBuf: pick(rng, 1, 2, 4, 8), MemLat: pick(rng, 1, 3, 10, 40), Sets: pick(rng, 1, 2, 4), Ways: pick(rng, 1, 2, 4),
		MSHR: pick(rng, 1, 2, 4), BankLat: pick(rng, 1, 2, 5), DirLat: pick(rng, 0, 1, 2), TLBLat: pick(rng, 2, 3, 4),
		Policy: pick(rng, "write-through", "write-around", "write-evict")}
	switch c.Kind {
	case "dram", "banked":
		c.Leaf = c.Kind
	case "wb", "wt", "l1l2":
		c.Leaf = pick(rng, "ideal", "ideal", "ideal", "banked", "dram")
	case "xlat":
		// one-message ports everywhere, bursts of requests to many distinct pages
		c.PortBuf, c.Window, c.Lines = 1, pick(rng, 8, 12, 16), 64*pick(rng, 16, 32, 48)
		c.MemLat, c.TLBLat = pick(rng, 3, 10, 40), pick(rng, 2, 4, 8)
	case "rob":
		// a reorder buffer over a cache over a slow memory: hits overtake misses, so the buffer holds
		// answered-but-unretired transactions behind an outstanding miss
		c.Lower = pick(rng, "wb", "wb", "wt")
		c.Window, c.MemLat, c.Lines = pick(rng, 8, 12, 16), pick(rng, 40, 100), pick(rng, 6, 12)
		c.PortBuf, c.WriteP = pick(rng, 1, 2, 4), pick(rng, 0.2, 0.5)
		c.Sets, c.Ways = pick(rng, 2, 4), pick(rng, 2, 4)
	}
	// sometimes the requester stops retrieving for a while: the Top port of the first component fills up and
	// answered requests wait inside the components
	if rng.Intn(3) == 0 || (c.Kind == "rob" && rng.Intn(2) == 0) {
		c.ReqStallFrom, c.ReqStallLen = 2+rng.Intn(30), 20+rng.Intn(150)
	}
	names := stackNames(c)
	mode := ctlMode
	if mode == "mixed" {
		mode = pick(rng, "none", "soft", "reset", "reset")
	}
	if mode == "none" {
		return c
	}
	nsteps := 1 + rng.Intn(3)
	at := 0
	for k := 0; k < nsteps; k++ {
		at += 1 + rng.Intn(max(2, c.Ops/(nsteps+1)))
		robReset := c.Kind == "rob" && mode == "reset" && k == 0
		if robReset {
			// once the cache is warm the requester stops retrieving; the first sweep comes during that stall: hits have been
			// answered, misses are still out, the Top port is full — the reorder buffer holds transactions that have their
			// answer but cannot retire
			at = c.Ops/3 + rng.Intn(max(1, c.Ops/4))
			c.ReqStallFrom, c.ReqStallAfterSent, c.ReqStallLen = 0, at, 200+rng.Intn(100)
		}
		if at >= c.Ops {
			break
		}
		st := CtlStep{After: at}
		if robReset {
			st.StallTick = 10 + rng.Intn(60)
		}
		tgt := names[rng.Intn(len(names))]
		kind := "soft"
		if mode == "reset" && (k == nsteps-1 || rng.Intn(2) == 0 || robReset) {
			kind = "reset"
		}
		switch kind {
		case "soft":
			switch rng.Intn(4) {
			case 0:
				st.Cmds = []CtlCmd{{Cmd: "pause", Target: tgt}, {Cmd: "wait", N: 1 + rng.Intn(60)}, {Cmd: "enable", Target: tgt}}
			case 1:
				st.Cmds = []CtlCmd{{Cmd: "drain", Target: tgt}, {Cmd: "enable", Target: tgt}}
			case 2:
				st.Cmds = []CtlCmd{{Cmd: "drain", Target: tgt}, {Cmd: "flush", Target: tgt}, {Cmd: "invalidate", Target: tgt}, {Cmd: "enable", Target: tgt}}
			default:
				st.Cmds = []CtlCmd{{Cmd: "pause", Target: tgt}, {Cmd: "invalidate", Target: tgt}, {Cmd: "wait", N: rng.Intn(10)}, {Cmd: "enable", Target: tgt}}
			}
		case "reset":
			// every component of the stack is reset, top-down or bottom-up, optionally paused first,
			// optionally with a few cycles between the resets
			order := append([]string(nil), names...)
			if rng.Intn(2) == 0 {
				for a, b := 0, len(order)-1; a < b; a, b = a+1, b-1 {
					order[a], order[b] = order[b], order[a]
				}
			}
			prePause := rng.Intn(3) == 0
			if robReset {
				// no further wait: the instant is set by StallTick
			} else if w := rng.Intn(3); w > 0 {
				st.Cmds = append(st.Cmds, CtlCmd{Cmd: "wait", N: rng.Intn(40)})
			}
			if prePause {
				for _, n := range order {
					st.Cmds = append(st.Cmds, CtlCmd{Cmd: "pause", Target: n})
				}
			}
			gap := pick(rng, 0, 0, 1, 5)
			for _, n := range order {
				st.Cmds = append(st.Cmds, CtlCmd{Cmd: "reset", Target: n})
				if gap > 0 {
					st.Cmds = append(st.Cmds, CtlCmd{Cmd: "wait", N: gap})
				}
			}
			// let stragglers (answers already on their way) arrive before traffic resumes
			st.Cmds = append(st.Cmds, CtlCmd{Cmd: "wait", N: pick(rng, 0, 5, 100)})
		}
		c.Ctl = append(c.Ctl, st)
	}
	return c
}

// stackNames gives the library components of a kind, top to bottom (as buildStack orders them).
func stackNames(c StackCfg) []string {
	switch c.Kind {
	case "wb", "wt":
		return []string{"Cache", "Mem"}
	case "rob":
		return []string{"ROB", "Cache", "Mem"}
	case "xlat":
		return []string{"AT", "TLB", "MMU", "Mem"}
	case "l1l2":
		return []string{"L1", "L2", "Mem"}
	case "vm":
		return []string{"ROB", "AT", "TLB", "MMU", "L1", "L2", "Mem"}
	default:
		return []string{"Mem"}
	}
}
